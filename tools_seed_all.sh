#!/bin/sh
# re-confirm every filed seed against the current /repo HEAD and committed /verif
# (the checks run for a seed are the ones recorded in its meta.json: some seeds are reported by a neighbouring property's check)
cd /verif
for d in seeded/*; do
  id=$(basename $d)
  checks=$(/venv/bin/python -c "
import json,sys
m=json.load(open('/verif/seeded/$id/meta.json'))
c=list((m.get('confirmation') or {}).get('checks',{}).keys())
print(','.join(c))" 2>/dev/null)
  extra=""
  [ -n "$checks" ] && extra="--checks=$checks"
  ./tools_seed.py /verif/seeded/$id $id $extra 2>&1 | grep -v "conda\|DLASCL" | cut -c1-200
done
./tools_mutants.py
