#!/bin/sh
# re-confirm every filed seed against the current /repo HEAD and committed /verif
cd /verif
for d in seeded/*; do
  id=$(basename $d)
  extra=""
  [ "$id" = "C11-2" ] && extra="--checks=C11,C15"
  ./tools_seed.py /verif/seeded/$id $id $extra 2>&1 | grep -v "conda\|DLASCL" | cut -c1-200
done
./tools_mutants.py
