---------------------------- MODULE RunRegistry ----------------------------
(* Abstract machine of project result run numbering (property C18).          *)
(* runs[n] = number of runs stored for result name n.  Save(n) stores run     *)
(* number runs[n] (4 digits) of n and nothing else; the latest run of n is    *)
(* runs[n]-1 whatever runs other names have.  last records the transition so  *)
(* that every edge can be replayed on a real ProjectResultRegistry.           *)
EXTENDS Naturals

Names == {"a", "ab", "a_run_b", "a.b"}
MaxRuns == 2

VARIABLES runs, last

Init == runs = [n \in Names |-> 0] /\ last = <<"init", "-", 0>>

Save(n) == /\ runs[n] < MaxRuns
           /\ runs' = [runs EXCEPT ![n] = runs[n] + 1]
           /\ last' = <<"save", n, runs[n]>>

Next == \E n \in Names : Save(n)

Spec == Init /\ [][Next]_<<runs, last>>

(* a save touches exactly one name and uses the next free number of that name *)
OnlyOwnName == [][\A m \in Names : m # last'[2] => runs'[m] = runs[m]]_<<runs, last>>
Increasing  == [][\A m \in Names : runs'[m] >= runs[m]]_<<runs, last>>
Bounded == \A n \in Names : runs[n] <= MaxRuns
=============================================================================
