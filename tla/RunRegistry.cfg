INIT Init
NEXT Next
INVARIANTS Bounded
PROPERTIES OnlyOwnName Increasing
CHECK_DEADLOCK FALSE
