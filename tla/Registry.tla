------------------------------ MODULE Registry ------------------------------
(* Abstract machine of the pyglotaran plugin registry (property C19).            *)
(* short[s]  : plugin a short name resolves to ("NONE" = not registered)         *)
(* full[p]   : plugin p is retrievable under its full name                       *)
(* first / pinned are history variables: the plugin first registered under s,    *)
(* and the plugin s was last pinned to by set_plugin.  last / warned describe the *)
(* transition that led to the state (operation, arguments, overwrite warning) so  *)
(* that every edge of the dumped state graph can be replayed on the real code.    *)
EXTENDS TLC

Shorts  == {"x", "y"}
Plugins == {"A", "B"}

VARIABLES short, full, first, pinned, last, warned

vars == <<short, full, first, pinned, last, warned>>

Init == /\ short  = [s \in Shorts |-> "NONE"]
        /\ full   = [p \in Plugins |-> FALSE]
        /\ first  = [s \in Shorts |-> "NONE"]
        /\ pinned = [s \in Shorts |-> "NONE"]
        /\ last   = <<"init", "-", "-">>
        /\ warned = FALSE

Register(s, p) ==
    /\ short'  = IF short[s] = "NONE" THEN [short EXCEPT ![s] = p] ELSE short
    /\ first'  = IF first[s] = "NONE" /\ short[s] = "NONE" THEN [first EXCEPT ![s] = p] ELSE first
    /\ full'   = [full EXCEPT ![p] = TRUE]
    /\ pinned' = pinned
    /\ warned' = (short[s] # "NONE" /\ short[s] # p)
    /\ last'   = <<"reg", s, p>>

SetPlugin(s, p) ==
    /\ full[p]
    /\ short'  = [short EXCEPT ![s] = p]
    /\ pinned' = [pinned EXCEPT ![s] = p]
    /\ UNCHANGED <<full, first>>
    /\ warned' = FALSE
    /\ last'   = <<"set", s, p>>

SetUnknown(s, p) ==
    /\ ~full[p]
    /\ UNCHANGED <<short, full, first, pinned>>
    /\ warned' = FALSE
    /\ last'   = <<"setfail", s, p>>

Next == \E s \in Shorts, p \in Plugins : Register(s, p) \/ SetPlugin(s, p) \/ SetUnknown(s, p)

Spec == Init /\ [][Next]_vars

(* first registration wins until a set-plugin call re-points the name *)
FirstWins == \A s \in Shorts :
    short[s] = IF pinned[s] # "NONE" THEN pinned[s] ELSE first[s]

(* everything a short name resolves to is retrievable under its full name *)
Reachable == \A s \in Shorts : short[s] # "NONE" => full[short[s]]

(* a full name never disappears *)
FullMonotone == [][\A p \in Plugins : full[p] => full'[p]]_vars
=============================================================================
