INIT Init
NEXT Next
INVARIANTS FirstWins Reachable
PROPERTIES FullMonotone
