#!/venv/bin/python
"""Run checks against a behaviour-preserving change (a refactor written by a sub-agent that saw only the property text)
and file the outcome under /verif/benign/<id>/.  The checks must stay silent; a VIOLATION is either a mistake of the
refactor (it does change behaviour - then it is moved to /verif/seeded by hand) or a false alarm of the check.

usage: tools_benign.py <src dir with patch.diff meta.json> <id, e.g. benign-C02-1> --checks=C02,C03 [--no-suite]
"""
import json
import os
import shutil
import sys
import time

from tools_seed import ENV
from tools_seed import sh


def main():
    src, bid = sys.argv[1], sys.argv[2]
    checks = [a.split("=")[1].split(",") for a in sys.argv if a.startswith("--checks=")][0]
    dst = f"/verif/benign/{bid}"
    os.makedirs(dst, exist_ok=True)
    if os.path.abspath(src) != os.path.abspath(dst):
        shutil.copy(os.path.join(src, "patch.diff"), os.path.join(dst, "patch.diff"))
    meta = json.load(open(os.path.join(src, "meta.json")))
    conf = {"confirmed_at_repo_head": sh("git -C /repo rev-parse --short HEAD")[1].strip(), "checks": {}}
    wt = f"/tmp/benignwt-{bid}"
    sh(f"git -C /repo worktree remove --force {wt}")
    rc, out = sh(f"git -C /repo worktree add --detach {wt} HEAD")
    assert rc == 0, out
    try:
        rc, out = sh(f"git apply {dst}/patch.diff", cwd=wt)
        conf["patch_applies"] = rc == 0
        if rc == 0:
            env = dict(ENV, PYTHONPATH=wt, NUMBA_NUM_THREADS="2", OMP_NUM_THREADS="2")
            if "--no-suite" not in sys.argv:
                rc, out = sh("/venv/bin/python -m pytest -q -p no:cacheprovider -n 6 --timeout=900 glotaran benchmark", cwd=wt, env=env)
                conf["suite_with_change"] = {"summary": ([l for l in out.splitlines() if " passed" in l or " failed" in l] or [""])[-1],
                                             "failed": [l for l in out.splitlines() if l.startswith("FAILED")]}  # fmt: skip
            snap = f"/tmp/benignverif-{bid}"
            sh(f"rm -rf {snap}; mkdir -p {snap} && cd /verif && git ls-files -z | xargs -0 cp --parents -t {snap}")
            for c in checks:
                t = time.time()
                rc, out = sh(f"./check {c} --tier quick", cwd=snap, env=dict(ENV, VERIF_REPO=wt), timeout=3000)
                viol = [l.replace(snap, "/verif") for l in out.splitlines() if l.startswith("VIOLATION")]
                conf["checks"][c] = {"exit": rc, "violations": viol[:8], "wall_s": round(time.time() - t)}
                for v in viol[:3]:  # keep the replay for inspection
                    path = v.split("replay=")[1].split()[0].replace("/verif", snap)
                    if os.path.exists(path):
                        shutil.copy(path, os.path.join(dst, os.path.basename(path)))
            sh(f"rm -rf {snap}")
    finally:
        sh(f"git -C /repo worktree remove --force {wt}")
    meta["confirmation"] = conf
    json.dump(meta, open(os.path.join(dst, "meta.json"), "w"), indent=1)
    silent = all(v["exit"] == 0 and not v["violations"] for v in conf["checks"].values())
    print(f"{bid}: applies={conf.get('patch_applies')} suite={conf.get('suite_with_change', {}).get('summary', '-')} silent={silent}")
    for c, v in conf["checks"].items():
        print("   ", c, v["exit"], v["violations"][:3])


if __name__ == "__main__":
    main()
