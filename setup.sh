#!/bin/sh
# Offline setup: nothing to build. Checks are pure Python run by /venv/bin/python, which imports glotaran
# from /repo's working tree. Optional pure-Python wheels are unpacked into /verif/_deps if available.
cd "$(dirname "$0")"
mkdir -p evidence replays
if [ ! -d _deps/mpmath ] && [ -d /opt/veriftools/wheels ]; then
  /venv/bin/pip install --quiet --no-index --find-links /opt/veriftools/wheels --target _deps mpmath >/dev/null 2>&1 || true
fi
/venv/bin/python -c "import glotaran, jsonschema" || exit 1
exit 0
