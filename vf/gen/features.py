"""Feature-product scheme space shared by C02/C03/C13/C10/C15: option dict -> abstract spec.

Every axis lists its values simplest-first; `pairwise`/`t_way` enumerate *all* t-way combinations of
(axis, value) assignments around the default (complete enumeration of the t-way space, not a sample).
"""
from __future__ import annotations

import itertools

from vf.gen import schemes as S

AXES = {
    "nds": [2, 1, 3],
    "axes": ["overlap", "identical", "disjoint", "near", "square", "descending", "twin"],
    "link": [None, True, False],
    "indexdep": ["none", "all", "mixed", "mixed_rev"],
    "weights": ["none", "ds_all", "ds_first", "ds_last", "model_global", "model_both"],
    "dscale": ["none", "second", "all"],
    "multimc": ["single", "two", "two_scaled", "two_rev", "two_neg"],
    "constraints": ["none", "zero_all", "zero_iv", "only_iv", "zero_src_iv"],
    "relation": ["none", "iv", "all", "two"],
    "penalty": ["none", "yes"],
    "residual": ["variable_projection", "non_negative_least_squares"],
    "full": ["no", "yes"],
    "layout": ["mg", "gm", "mixed"],
    "groups": ["one", "two", "two_unlinked"],
    "memorder": ["c", "f"],
    "labels": ["d", "substr"],
}
DEFAULT = {k: v[0] for k, v in AXES.items()}

LABEL_SETS = {
    "d": ["d1", "d2", "d3", "d4"],
    "substr": ["a", "ab", "b", "ba"],  # labels that are substrings of one another / whose concatenations coincide
    "rev": ["ab", "a", "bab", "b"],
    "concat": ["a", "b", "ab", "ba"],  # {a, b} stacked at one index and {ab} alone at another -> same concatenation
}
GLOBAL_AXES = {
    "identical": [[1, 2, 3], [1, 2, 3], [1, 2, 3], [1, 2, 3]],
    "overlap": [[1, 2, 3], [2, 3, 4], [3, 4, 5], [1, 3, 5]],
    "disjoint": [[1, 2, 3], [4, 5, 6], [7, 8], [9, 10, 11]],
    "near": [[1, 2, 3], [1.4, 2.4, 3.7], [0.9, 2.0, 4.2], [1, 3, 5]],
    "twin": [[1, 2, 3, 5], [1, 2.5, 3, 5], [1, 1.5, 4, 5], [1, 2, 4, 5]],  # same length, first and last point - other points in between
    "descending": [[3, 1, 2], [4, 3, 2], [5, 3, 4], [5, 3, 1]],  # global axes need not be sorted (first: a 3-cycle)
    "square": [[1, 2, 3, 4, 5, 6], [2, 3, 4, 5, 6], [1, 2, 3, 4, 5, 6, 7], [1, 2, 3, 4, 5, 6, 7, 8]],  # n_model == n_global
}
N_MODEL = [6, 5, 7, 8]


def make_spec(o, variant=1, seed=0):
    o = {**DEFAULT, **o}
    n = o["nds"]
    if o["axes"] == "descending" and (o["penalty"] == "yes" or o["weights"] in ("model_global", "model_both")):
        return None  # interval -> index-range items are only defined for increasing axes (C08's domain)
    labels = LABEL_SETS[o["labels"]][:n]
    idx = {"none": (False, False), "all": (True, True), "mixed": (False, True), "mixed_rev": (True, False)}[o["indexdep"]]
    mcs = {
        "m1": S.mc_model(["s1", "s2"], idx[0], fortran=o["memorder"] == "f"),
        "m2": S.mc_model(["s2", "s3"], idx[1], fortran=o["memorder"] == "f"),
        "m4": S.mc_model(["t1", "t2"], idx[1]),
        "g1": S.mc_global(["q1", "q2"]),
    }
    datasets = []
    if o["relation"] == "two" and o["multimc"] == "single":
        o = dict(o, multimc="two")  # the pair of relations needs s1, s2 and s3 in one dataset
    for k in range(n):
        if o["multimc"] == "single":
            m, ms = (["m1"] if k % 2 == 0 else ["m2"]), None
        elif o["multimc"] == "two":
            m, ms = ["m1", "m2"], None
        elif o["multimc"] == "two_rev":  # the same megacomplexes, listed in the other order by every second dataset
            m, ms = (["m1", "m2"] if k % 2 == 0 else ["m2", "m1"]), None
        elif o["multimc"] == "two_neg":  # a negative megacomplex scale (a bleach): an entirely negative column
            m, ms = ["m1", "m2"], [1.0, -1.5]
        else:
            m, ms = ["m1", "m2"], [2.0, 0.5]
        d = S.dataset(labels[k], GLOBAL_AXES[o["axes"]][k], n_model=N_MODEL[k], megacomplexes=m, mc_scales=ms)
        if o["layout"] == "gm" or (o["layout"] == "mixed" and k % 2 == 1):
            d["layout"] = "gm"
        if o["dscale"] == "all" or (o["dscale"] == "second" and k == min(1, n - 1)):
            d["scale"] = [2.0, 3.0, 0.5, 1.5][k]
        if o["weights"] == "ds_all" or (o["weights"] == "ds_first" and k == 0) or (o["weights"] == "ds_last" and k == n - 1):
            d["weight"] = "dataset"
        datasets.append(d)
    groups = {"default": {"link_clp": o["link"], "residual_function": o["residual"]}}
    if o["groups"] == "two_unlinked" and o["link"] is None:
        groups["default"]["link_clp"] = False  # both groups unlinked unless the link axis says otherwise
    if o["groups"] in ("two", "two_unlinked") and n >= 2:
        datasets[-1]["group"] = "second"
        datasets[-1]["megacomplexes"] = ["m4"]
        datasets[-1]["mc_scales"] = None
        groups["second"] = {"link_clp": None if o["groups"] == "two" else False, "residual_function": "variable_projection"}
    if o["full"] == "yes":
        if o["link"] is True:
            return None
        datasets[0]["global_megacomplexes"] = ["g1"]
    spec = S.base_spec(datasets, mcs, groups=groups, seed=seed, x_variant=variant)
    if o["axes"] == "near":
        spec["tolerance"] = 0.6
    if o["weights"] in ("model_global", "model_both"):
        w = {"datasets": labels[: max(1, n - 1)], "global_interval": [2, 3], "value": 0.5}
        spec["weights"].append(w)
        if o["weights"] == "model_both":
            spec["weights"].append({"datasets": [labels[0]], "model_interval": [0.3, 2.0], "value": 3.0})
    if o["constraints"] == "zero_all":
        spec["constraints"].append({"type": "zero", "target": "s1", "interval": None})
    elif o["constraints"] == "zero_iv":
        spec["constraints"].append({"type": "zero", "target": "s1", "interval": [2, 3]})
    elif o["constraints"] == "zero_src_iv":  # the source of the relation (and of the penalty target) is itself constrained
        spec["constraints"].append({"type": "zero", "target": "s2", "interval": [2, 3]})
    elif o["constraints"] == "only_iv":
        spec["constraints"].append({"type": "only", "target": "s3", "interval": [3, 4]})  # zeroes s3 at 2 (shared with d1, which has no s3) and 5
    if o["relation"] == "iv":
        spec["relations"].append({"source": "s2", "target": "s3", "parameter": 0.7, "interval": [1, 3]})
    elif o["relation"] == "two":  # two relations whose intervals follow one another along the axis
        # (one source, two targets: the datasets carry both megacomplexes - see below - so that both relations meet in
        # every dataset and the column of the common source survives both)
        spec["relations"].append({"source": "s2", "target": "s3", "parameter": 0.7, "interval": [1, 2]})
        spec["relations"].append({"source": "s2", "target": "s1", "parameter": 0.4, "interval": [3, 5]})
    elif o["relation"] == "all":
        spec["relations"].append({"source": "s2", "target": "s3", "parameter": 0.7, "interval": None})
    if o["penalty"] == "yes":
        spec["penalties"].append({"source": "s1", "source_intervals": [[1, 3]], "target": "s2",
                                  "target_intervals": [[2, 4]], "parameter": 1.3, "weight": 0.5})  # fmt: skip
    return spec


def t_way(t, axes=None):
    """all assignments that differ from DEFAULT in at most t axes (complete)"""
    axes = axes or list(AXES)
    seen = set()
    out = []
    for r in range(t + 1):
        for combo in itertools.combinations(axes, r):
            for vals in itertools.product(*[AXES[a][1:] for a in combo]):
                o = dict(zip(combo, vals))
                k = tuple(sorted(o.items(), key=lambda kv: kv[0]))
                if k not in seen:
                    seen.add(k)
                    out.append(o)
    return out


def product(axes):
    out = []
    for vals in itertools.product(*[AXES[a] for a in axes]):
        out.append({a: v for a, v in zip(axes, vals) if v != DEFAULT[a]})
    return out
