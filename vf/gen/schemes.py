"""Abstract scheme specs -> (a) a real glotaran Scheme and (b) an independent numpy reference evaluation.

The spec is plain JSON data (see `base_spec`).  The reference (`reference`) shares with the implementation
only the closed-form column functions of the harness megacomplexes (`col_model`, `col_global`); everything the
properties C02/C03/C08/C09/C13 talk about - scaling, label merging, relations, constraints, weights,
alignment, stacking, solving, penalties, result layout - is re-implemented here from the statements.
"""
from __future__ import annotations

import itertools
import math

import numpy as np

from glotaran.model import DatasetModel  # noqa: F401
from glotaran.model import Megacomplex
from glotaran.model import Model
from glotaran.model import ParameterType
from glotaran.model import megacomplex
from vf import core


# --------------------------------------------------------------------------- column functions
def col_model(rate, t, g, index_dependent):
    t = np.asarray(t, dtype=float)
    if index_dependent:
        return np.exp(-rate * t * (1.0 + 0.125 * g))
    return np.exp(-rate * t)


def col_global(loc, x):
    x = np.asarray(x, dtype=float)
    return np.exp(-(((x - loc) / 1.5) ** 2)) + 0.25


# --------------------------------------------------------------------------- harness megacomplexes
@megacomplex()
class VfModelMegacomplex(Megacomplex):
    type: str = "vf-model-mc"
    dimension: str = "time"
    clp_labels: list[str]
    rates: list[ParameterType]
    index_dependent: bool = False
    fortran: bool = False  # memory order of the returned matrix (megacomplexes are free to return either)

    def calculate_matrix(self, dataset_model, global_axis, model_axis, **kwargs):
        hook = _FAULT_HOOK[0]
        if hook is not None:
            hook(self, dataset_model)
        rates = [float(r) for r in self.rates]
        if self.index_dependent:
            m = np.empty((global_axis.size, model_axis.size, len(rates)))
            for i, g in enumerate(global_axis):
                for j, r in enumerate(rates):
                    m[i, :, j] = col_model(r, model_axis, g, True)
        else:
            m = np.empty((model_axis.size, len(rates)))
            for j, r in enumerate(rates):
                m[:, j] = col_model(r, model_axis, 0.0, False)
        if _POISON[0]:
            m[...] = np.nan
        if self.fortran:
            m = np.asfortranarray(m)
        return list(self.clp_labels), m

    def finalize_data(self, dataset_model, dataset, is_full_model=False, as_global=False):
        pass


@megacomplex()
class VfGlobalMegacomplex(Megacomplex):
    type: str = "vf-global-mc"
    dimension: str = "spectral"
    clp_labels: list[str]
    locations: list[ParameterType]

    def calculate_matrix(self, dataset_model, global_axis, model_axis, **kwargs):
        locs = [float(v) for v in self.locations]
        m = np.empty((model_axis.size, len(locs)))
        for j, v in enumerate(locs):
            m[:, j] = col_global(v, model_axis)
        return list(self.clp_labels), m

    def finalize_data(self, dataset_model, dataset, is_full_model=False, as_global=False):
        pass


_POISON = [False]  # fault injection: the harness megacomplex returns a non-finite matrix
_FAULT_HOOK = [None]  # set by fault-injection checks (C10/C15); called at every model-matrix evaluation
VfModel = Model.create_class_from_megacomplexes([VfModelMegacomplex, VfGlobalMegacomplex])


# --------------------------------------------------------------------------- spec helpers
MODEL_AXES = {
    5: [0.0, 0.4, 1.0, 2.2, 5.0],
    6: [0.0, 0.3, 0.8, 1.7, 3.1, 6.0],
    7: [0.0, 0.25, 0.6, 1.2, 2.0, 3.5, 7.0],
    8: [0.0, 0.2, 0.5, 0.9, 1.6, 2.6, 4.2, 8.0],
}
RATES = {"s1": 0.31, "s2": 1.13, "s3": 2.9, "s4": 0.07, "t1": 0.55, "t2": 1.9}
LOCS = {"q1": 1.0, "q2": 3.0, "q3": 5.0}


def mc_model(labels, index_dependent=False, rates=None, fortran=False):
    return {"kind": "model", "labels": list(labels), "rates": [RATES[l] if rates is None else rates[i] for i, l in enumerate(labels)],
            "index_dependent": bool(index_dependent), "fortran": bool(fortran)}  # fmt: skip


def mc_global(labels):
    return {"kind": "global", "labels": list(labels), "locations": [LOCS[l] for l in labels]}


def dataset(label, global_axis, n_model=6, megacomplexes=("m1",), **kw):
    d = {
        "label": label, "group": "default", "model_axis": list(MODEL_AXES[n_model]), "global_axis": list(global_axis),
        "layout": "mg", "megacomplexes": list(megacomplexes), "mc_scales": None, "global_megacomplexes": [],
        "global_mc_scales": None, "scale": None, "weight": None,
    }  # fmt: skip
    d.update(kw)
    return d


def base_spec(datasets, megacomplexes, **kw):
    s = {
        "datasets": datasets, "megacomplexes": megacomplexes,
        "groups": {"default": {"link_clp": None, "residual_function": "variable_projection"}},
        "constraints": [], "relations": [], "penalties": [], "weights": [],
        "tolerance": 0.0, "method": "nearest", "seed": 0, "x_variant": 0,
    }  # fmt: skip
    s.update(kw)
    return s


def _interval_to_model(iv):
    """JSON interval (list / list of lists / None, 'inf' strings) -> tuple / list of tuples"""
    if iv is None:
        return None

    def f(v):
        if isinstance(v, str):
            return float(v)
        return float(v)

    if len(iv) and isinstance(iv[0], (list, tuple)):
        return [(f(a), f(b)) for a, b in iv]
    return (f(iv[0]), f(iv[1]))


def intervals_list(iv):
    iv = _interval_to_model(iv)
    if iv is None:
        return None
    return [iv] if isinstance(iv, tuple) else list(iv)


# --------------------------------------------------------------------------- parameters of a spec
def parameter_table(spec):
    """ordered list of (label, value, vary) for every number of the spec that is a glotaran Parameter"""
    out = []
    for name, mc in spec["megacomplexes"].items():
        if mc["kind"] == "model":
            for j, r in enumerate(mc["rates"]):
                out.append((f"rate.{name}.{j+1}", float(r), True))
        else:
            for j, r in enumerate(mc["locations"]):
                out.append((f"loc.{name}.{j+1}", float(r), True))
    for d in spec["datasets"]:
        if d["scale"] is not None:
            out.append((f"dscale.{d['label']}", float(d["scale"]), True))
        for kind, key in (("mscale", "mc_scales"), ("gscale", "global_mc_scales")):
            if d.get(key):
                for j, s in enumerate(d[key]):
                    out.append((f"{kind}.{d['label']}.{j+1}", float(s), True))
    for k, r in enumerate(spec["relations"]):
        out.append((f"rel.{k+1}", float(r["parameter"]), True))
    for k, p in enumerate(spec["penalties"]):
        out.append((f"pen.{k+1}", float(p["parameter"]), True))
    return out


def variant_values(spec, variant=None):
    """parameter values at optimiser point number `variant` (0 = the declared values)"""
    variant = spec.get("x_variant", 0) if variant is None else variant
    vals = {}
    for pos, (label, value, vary) in enumerate(parameter_table(spec)):
        vals[label] = value * (1.0 + 0.07 * variant * ((pos % 3) + 1)) if vary else value
    return vals


# --------------------------------------------------------------------------- build the real scheme
def make_data(spec, d):
    import xarray as xr

    t = np.asarray(d["model_axis"], dtype=float)
    g = np.asarray(d["global_axis"], dtype=float)
    noise = core.det_noise((t.size, g.size), spec.get("seed", 0), "data", d["label"], t.size, g.size)
    smooth = np.outer(np.exp(-0.7 * t), 1.0 + 0.3 * np.arange(g.size)) + 0.4 * np.outer(np.exp(-0.1 * t), np.ones(g.size))
    arr = smooth + 0.6 * noise
    ds = xr.Dataset()
    gdim = d.get("global_dim", "spectral")
    if d["layout"] == "mg":
        ds["data"] = (("time", gdim), arr)
    else:
        ds["data"] = ((gdim, "time"), arr.T.copy())
    gcoord = g
    if d.get("axis_dtype") == "int" and np.all(g == np.round(g)):
        gcoord = g.astype(np.int64)  # the coordinate as an instrument file stores it: integers
    elif d.get("axis_dtype") == "float32":
        gcoord = g.astype(np.float32)
    ds = ds.assign_coords({"time": t, gdim: gcoord})
    if d["weight"] is not None:
        w = 0.5 + 1.5 * core.det_noise((t.size, g.size), 7, "weight", d["label"], t.size, g.size) ** 2
        if d["weight"] == "dataset_gm" or (d["weight"] == "dataset" and d["layout"] == "gm"):
            ds["weight"] = ((gdim, "time"), w.T.copy())
        else:
            ds["weight"] = (("time", gdim), w)
    return ds


def dataset_weight_array(spec, d):
    t, g = len(d["model_axis"]), len(d["global_axis"])
    return 0.5 + 1.5 * core.det_noise((t, g), 7, "weight", d["label"], t, g) ** 2


def build_model_dict(spec):
    md = {"megacomplex": {}, "dataset": {}, "dataset_groups": {}}
    for name, mc in spec["megacomplexes"].items():
        if mc["kind"] == "model":
            md["megacomplex"][name] = {
                "type": "vf-model-mc", "clp_labels": list(mc["labels"]),
                "rates": [f"rate.{name}.{j+1}" for j in range(len(mc["rates"]))],
                "index_dependent": mc["index_dependent"], "fortran": bool(mc.get("fortran", False)),
            }  # fmt: skip
        else:
            md["megacomplex"][name] = {
                "type": "vf-global-mc", "clp_labels": list(mc["labels"]),
                "locations": [f"loc.{name}.{j+1}" for j in range(len(mc["locations"]))],
            }  # fmt: skip
    for d in spec["datasets"]:
        dm = {"group": d["group"], "megacomplex": list(d["megacomplexes"])}
        if d["global_megacomplexes"]:
            dm["global_megacomplex"] = list(d["global_megacomplexes"])
        if d["scale"] is not None:
            dm["scale"] = f"dscale.{d['label']}"
        if d.get("mc_scales"):
            dm["megacomplex_scale"] = [f"mscale.{d['label']}.{j+1}" for j in range(len(d["mc_scales"]))]
        if d.get("global_mc_scales"):
            dm["global_megacomplex_scale"] = [f"gscale.{d['label']}.{j+1}" for j in range(len(d["global_mc_scales"]))]
        md["dataset"][d["label"]] = dm
    for gname, g in spec["groups"].items():
        md["dataset_groups"][gname] = {"link_clp": g["link_clp"], "residual_function": g["residual_function"]}
    if spec["constraints"]:
        md["clp_constraints"] = []
        for c in spec["constraints"]:
            e = {"type": c["type"], "target": c["target"]}
            if c.get("interval") is not None:
                e["interval"] = _interval_to_model(c["interval"])
            md["clp_constraints"].append(e)
    if spec["relations"]:
        md["clp_relations"] = []
        for k, r in enumerate(spec["relations"]):
            e = {"source": r["source"], "target": r["target"], "parameter": f"rel.{k+1}"}
            if r.get("interval") is not None:
                e["interval"] = _interval_to_model(r["interval"])
            md["clp_relations"].append(e)
    if spec["penalties"]:
        md["clp_penalties"] = []
        for k, p in enumerate(spec["penalties"]):
            md["clp_penalties"].append({
                "type": "equal_area", "source": p["source"], "source_intervals": intervals_list(p["source_intervals"]),
                "target": p["target"], "target_intervals": intervals_list(p["target_intervals"]),
                "parameter": f"pen.{k+1}", "weight": float(p["weight"]),
            })  # fmt: skip
    if spec["weights"]:
        md["weights"] = []
        for w in spec["weights"]:
            e = {"datasets": list(w["datasets"]), "value": float(w["value"])}
            if w.get("global_interval") is not None:
                e["global_interval"] = _interval_to_model(w["global_interval"])
            if w.get("model_interval") is not None:
                e["model_interval"] = _interval_to_model(w["model_interval"])
            md["weights"].append(e)
    return md


def build_parameters(spec):
    from glotaran.parameter import Parameter
    from glotaran.parameter import Parameters

    return Parameters({l: Parameter(label=l, value=v, vary=vary) for l, v, vary in parameter_table(spec)})


def build_scheme(spec, **scheme_kw):
    from glotaran.project import Scheme

    model = VfModel(**build_model_dict(spec))
    params = build_parameters(spec)
    data = {d["label"]: make_data(spec, d) for d in spec["datasets"]}
    kw = dict(clp_link_tolerance=float(spec["tolerance"]), clp_link_method=spec["method"],
              maximum_number_function_evaluations=1, add_svd=False)  # fmt: skip
    kw.update(scheme_kw)
    return Scheme(model=model, parameters=params, data=data, **kw)


def x_vector(spec, variant=None):
    vals = variant_values(spec, variant)
    return np.asarray([vals[l] for l, _, vary in parameter_table(spec) if vary])


# --------------------------------------------------------------------------- reference: interval semantics
def interval_applies(iv, x):
    """closed, order-insensitive membership; list = union; None = everywhere"""
    ivs = intervals_list(iv)
    if ivs is None:
        return True
    return any(min(a, b) <= x <= max(a, b) for a, b in ivs)


def nearest_index(axis, b):
    return int(np.abs(np.asarray(axis) - b).argmin())


def interval_index_range_bounds(iv, axis):
    """(must, may): index sets.  must = axis points inside the closed interval (infinite bound reaches the
    axis end); may = everything up to the axis point nearest to each bound (the statement's outer limit)."""
    axis = np.asarray(axis, dtype=float)
    a, b = float(iv[0]), float(iv[1])
    lo, hi = min(a, b), max(a, b)
    must = {i for i, x in enumerate(axis) if lo <= x <= hi}
    # the axis point nearest to an infinite bound is the end of the axis it points to
    lo_i = (0 if lo < 0 else len(axis) - 1) if math.isinf(lo) else nearest_index(axis, lo)
    hi_i = (len(axis) - 1 if hi > 0 else 0) if math.isinf(hi) else nearest_index(axis, hi)
    may = set(range(lo_i, hi_i + 1)) | must
    return must, may


def slice_reference(iv, axis):
    """Reference for an interval -> contiguous block of axis points: nearest point to each finite bound,
    infinite bounds reach the axis end (inclusive)."""
    axis = np.asarray(axis, dtype=float)
    a, b = float(iv[0]), float(iv[1])
    lo, hi = min(a, b), max(a, b)
    if math.isinf(lo):
        i0 = 0 if lo < 0 else len(axis) - 1
    else:
        i0 = nearest_index(axis, lo)
    if math.isinf(hi):
        i1 = len(axis) - 1 if hi > 0 else 0
    else:
        i1 = nearest_index(axis, hi)
    return list(range(i0, i1 + 1))


# --------------------------------------------------------------------------- reference: alignment (C09)
class OutOfDomain(Exception):
    reason = "out-of-domain"


class AlignAmbiguous(OutOfDomain):
    reason = "ambiguous-alignment"


def reference_alignment(axes, tolerance, method):
    """axes: ordered list of (label, axis).  Returns (aligned_axis, mapping label -> list of aligned values).
    Statement read literally: datasets processed in order; a point maps to the nearest already aligned point
    on the permitted side if within tolerance, else to itself; two points of one dataset mapping to the same
    aligned point -> ambiguous."""
    aligned = None
    mapping = {}
    ties = []
    for label, axis in axes:
        axis = [float(v) for v in axis]
        if aligned is None:
            mapping[label] = list(axis)
            aligned = sorted(set(axis))
            continue
        out = []
        for v in axis:
            cands = []
            for a in aligned:
                if method == "forward" and a < v:
                    continue
                if method == "backward" and a > v:
                    continue
                if abs(a - v) <= tolerance:
                    cands.append((abs(a - v), a))
            if cands:
                dmin = min(c[0] for c in cands)
                best = [a for dd, a in cands if dd == dmin]
                if len(best) > 1:
                    ties.append((label, v, best))
                out.append(best[0])
            else:
                out.append(v)
        if len(set(out)) != len(out):
            raise AlignAmbiguous()
        mapping[label] = out
        aligned = sorted(set(aligned) | set(out))
    return aligned, mapping, ties


# --------------------------------------------------------------------------- reference: linear algebra
def solve_vp(M, y):
    c, *_ = np.linalg.lstsq(M, y, rcond=None)
    return c


def solve_nnls(M, y):
    """brute force over all support sets (exact for the small column counts used here)"""
    n = M.shape[1]
    best, best_c = None, None
    for r in range(n + 1):
        for S in itertools.combinations(range(n), r):
            c = np.zeros(n)
            if S:
                cs, *_ = np.linalg.lstsq(M[:, S], y, rcond=None)
                if np.any(cs < 0):
                    continue
                c[list(S)] = cs
            res = float(np.sum((y - M @ c) ** 2))
            if best is None or res < best - 1e-14 * max(1.0, best):
                best, best_c = res, c
    return best_c


# --------------------------------------------------------------------------- reference: the pipeline
def _dataset_matrix(spec, d, vals, i_global):
    """label-merged, megacomplex-scaled matrix of dataset d at its own global index (not dataset-scaled)"""
    t = np.asarray(d["model_axis"], dtype=float)
    g = float(d["global_axis"][i_global])
    labels, cols = [], {}
    for j, name in enumerate(d["megacomplexes"]):
        mc = spec["megacomplexes"][name]
        s = vals[f"mscale.{d['label']}.{j+1}"] if d.get("mc_scales") else 1.0
        for k, lab in enumerate(mc["labels"]):
            c = s * col_model(vals[f"rate.{name}.{k+1}"], t, g, mc["index_dependent"])
            if lab in cols:
                cols[lab] = cols[lab] + c
            else:
                cols[lab] = c
                labels.append(lab)
    return labels, np.column_stack([cols[l] for l in labels])


def _global_matrix(spec, d, vals):
    x = np.asarray(d["global_axis"], dtype=float)
    labels, cols = [], {}
    for j, name in enumerate(d["global_megacomplexes"]):
        mc = spec["megacomplexes"][name]
        s = vals[f"gscale.{d['label']}.{j+1}"] if d.get("global_mc_scales") else 1.0
        for k, lab in enumerate(mc["labels"]):
            c = s * col_global(vals[f"loc.{name}.{k+1}"], x)
            if lab in cols:
                cols[lab] = cols[lab] + c
            else:
                cols[lab] = c
                labels.append(lab)
    return labels, np.column_stack([cols[l] for l in labels])


def _reduce(spec, vals, labels, M, x, has_index=True):
    """relations, then constraints, at global value x. Returns reduced labels, reduced matrix, expand info"""
    labels = list(labels)
    rel_applied = []
    R = np.eye(len(labels))
    delete = []
    for k, r in enumerate(spec["relations"]):
        if r["target"] in labels and r["source"] in labels and interval_applies(r.get("interval"), x):
            R[labels.index(r["target"]), labels.index(r["source"])] = vals[f"rel.{k+1}"]
            delete.append(labels.index(r["target"]))
            rel_applied.append((r["source"], r["target"], vals[f"rel.{k+1}"]))
    if delete:
        keep = [i for i in range(len(labels)) if i not in delete]
        M = M @ R[:, keep]
        labels = [labels[i] for i in keep]
    removed = []
    for c in spec["constraints"]:
        inside = interval_applies(c.get("interval"), x)
        applies = inside if c["type"] == "zero" else (not inside)
        if c.get("interval") is None and c["type"] == "only":
            applies = False
        if c["target"] in labels and applies:
            removed.append(c["target"])
    if removed:
        keep = [i for i, l in enumerate(labels) if l not in removed]
        M = M[:, keep]
        labels = [labels[i] for i in keep]
    return labels, M, rel_applied


def _expand(full_labels, red_labels, c_red, rel_applied):
    c = np.zeros(len(full_labels))
    for l, v in zip(red_labels, c_red):
        c[full_labels.index(l)] = v
    for src, tgt, p in rel_applied:
        c[full_labels.index(tgt)] = p * c[full_labels.index(src)]
    return c


def reference_weights(spec, d):
    """(weight array (model, global) or None, expect_warning)"""
    t = np.asarray(d["model_axis"], dtype=float)
    g = np.asarray(d["global_axis"], dtype=float)
    mws = [w for w in spec["weights"] if d["label"] in w["datasets"]]
    if d["weight"] is not None:
        return dataset_weight_array(spec, d), bool(mws)
    if not mws:
        return None, False
    W = np.ones((t.size, g.size))
    for w in mws:
        gi = slice_reference(_interval_to_model(w["global_interval"]), g) if w.get("global_interval") is not None else range(g.size)
        mi = slice_reference(_interval_to_model(w["model_interval"]), t) if w.get("model_interval") is not None else range(t.size)
        for a in mi:
            for b in gi:
                W[a, b] *= w["value"]
    return W, False


def group_is_linked(spec, gname):
    ds = [d for d in spec["datasets"] if d["group"] == gname]
    link = spec["groups"][gname]["link_clp"]
    if link is None:
        if any(d["global_megacomplexes"] for d in ds):
            return False
        gdims = {d.get("global_dim", "spectral") for d in spec["datasets"]}
        return len(gdims) == 1
    return bool(link)


def _area(clp_label, labels_per_index, clps, intervals, axis):
    """sum of a clp over the axis points selected by the intervals (closed; nearest point to each bound)"""
    tot, n = 0.0, 0
    axis = np.asarray(axis, dtype=float)
    for iv in intervals_list(intervals):
        for i in slice_reference(iv, axis):
            if clp_label in labels_per_index[i]:
                tot += clps[i][labels_per_index[i].index(clp_label)]
                n += 1
    return tot, n


def _penalties(spec, vals, labels_per_index, clps, axis):
    out = []
    for k, p in enumerate(spec["penalties"]):
        sa, sn = _area(p["source"], labels_per_index, clps, p["source_intervals"], axis)
        ta, tn = _area(p["target"], labels_per_index, clps, p["target_intervals"], axis)
        if sn == 0 or tn == 0:
            continue
        out.append(abs(sa - vals[f"pen.{k+1}"] * ta) * p["weight"])
    return out


def reference(spec, variant=None, vals=None):
    """Evaluate the documented objective.  Returns dict with 'penalty' (full vector), per-dataset result arrays,
    'number_of_clps', 'cond' (largest condition number met), 'groups' (details)."""
    vals = variant_values(spec, variant) if vals is None else vals
    data = {}
    for d in spec["datasets"]:
        ds = make_data(spec, d)
        arr = ds["data"].transpose("time", d.get("global_dim", "spectral")).values.copy()
        data[d["label"]] = arr
    group_order = []
    for d in spec["datasets"]:
        if d["group"] not in group_order:
            group_order.append(d["group"])
    pen_vec = []
    out = {"datasets": {}, "number_of_clps": 0, "cond": 1.0, "groups": {}, "expect_weight_warning": False,
           "additional_penalty": []}  # fmt: skip
    for gname in group_order:
        ds = [d for d in spec["datasets"] if d["group"] == gname]
        nnls = spec["groups"][gname]["residual_function"] == "non_negative_least_squares"
        solve = solve_nnls if nnls else solve_vp
        linked = group_is_linked(spec, gname)
        weights = {}
        for d in ds:
            weights[d["label"]], warn = reference_weights(spec, d)
            out["expect_weight_warning"] |= warn
        gpen = []
        ginfo = {"linked": linked, "blocks": []}
        if not linked:
            res_blocks = []
            for d in ds:
                lab = d["label"]
                t = np.asarray(d["model_axis"], dtype=float)
                g = np.asarray(d["global_axis"], dtype=float)
                W = weights[lab]
                if d["global_megacomplexes"]:
                    labels, M = _dataset_matrix(spec, d, vals, 0)
                    idx_dep = any(spec["megacomplexes"][m]["index_dependent"] for m in d["megacomplexes"])
                    glabels, G = _global_matrix(spec, d, vals)
                    # full matrix: rows ordered global-major (all model points of global index 0, then 1, ...)
                    blocks = []
                    for i in range(g.size):
                        _, Mi = _dataset_matrix(spec, d, vals, i) if idx_dep else (labels, M)
                        blocks.append(np.kron(G[i : i + 1, :], Mi))
                    scale = 1.0 if d["scale"] is None else vals[f"dscale.{lab}"]
                    F = np.concatenate(blocks, axis=0) * scale
                    y = data[lab].T.flatten()
                    if W is not None:
                        wf = W.T.flatten()
                        F = F * wf[:, None]
                        y = y * wf
                    c = solve(F, y)
                    r = y - F @ c
                    out["cond"] = max(out["cond"], float(np.linalg.cond(F)))
                    res_blocks.append(r)
                    C = c.reshape(len(glabels), len(labels))
                    R = r.reshape(g.size, t.size).T
                    out["datasets"][lab] = {
                        "full": True, "labels": labels, "global_labels": glabels, "clp": C, "weighted_residual": R,
                        "weight": W, "residual": R if W is None else R / W, "matrix": M if not idx_dep else None,
                        "global_matrix": G, "scale": scale, "data": data[lab], "index_dependent": idx_dep,
                    }  # fmt: skip
                    out["number_of_clps"] += len(labels) * len(glabels)
                    continue
                scale = 1.0 if d["scale"] is None else vals[f"dscale.{lab}"]
                clps, labs_per_index, resid, mats = [], [], [], []
                for i, x in enumerate(g):
                    labels, M = _dataset_matrix(spec, d, vals, i)
                    mats.append(M)
                    Ms = M * scale
                    rl, Mr, rel = _reduce(spec, vals, labels, Ms, x)
                    y = data[lab][:, i]
                    if W is not None:
                        Mr = Mr * W[:, i][:, None]
                        y = y * W[:, i]
                    if Mr.shape[1]:
                        c = solve(Mr, y)
                        out["cond"] = max(out["cond"], float(np.linalg.cond(Mr)))
                        r = y - Mr @ c
                    else:
                        c, r = np.zeros(0), y.copy()
                    cf = _expand(labels, rl, c, rel)
                    clps.append(cf)
                    labs_per_index.append(labels)
                    resid.append(r)
                    out["number_of_clps"] += len(rl)
                    ginfo["blocks"].append({"x": float(x), "datasets": [lab], "reduced_labels": rl})
                res_blocks.append(np.concatenate(resid))
                gpen += _penalties(spec, vals, labs_per_index, clps, g)
                R = np.array(resid).T
                out["datasets"][lab] = {
                    "full": False, "labels": labs_per_index[0], "clp": np.array(clps), "weighted_residual": R,
                    "weight": W, "residual": R if W is None else R / W, "matrices": mats, "scale": scale,
                    "data": data[lab],
                }  # fmt: skip
            pen_vec.append(np.concatenate(res_blocks + [np.asarray(gpen, dtype=float)]))
        else:
            axes = [(d["label"], d["global_axis"]) for d in ds]
            aligned, mapping, ties = reference_alignment(axes, float(spec["tolerance"]), spec["method"])
            # (the aligned axis is strictly increasing also for a single dataset / identical unsorted axes - repaired in /repo)
            ginfo["aligned"] = aligned
            ginfo["mapping"] = mapping
            ginfo["ties"] = ties
            any_w = any(weights[d["label"]] is not None for d in ds)
            clps_a, labs_a, res_a = [], [], []
            per_ds = {d["label"]: {"clp": [None] * len(d["global_axis"]), "res": [None] * len(d["global_axis"]),
                                   "mats": [None] * len(d["global_axis"])} for d in ds}  # fmt: skip
            for x in aligned:
                members = []
                for d in ds:
                    for i, v in enumerate(mapping[d["label"]]):
                        if v == x:
                            members.append((d, i))
                full_labels, blocks, ys, ws = [], [], [], []
                mats = []
                for d, i in members:
                    labels, M = _dataset_matrix(spec, d, vals, i)
                    scale = 1.0 if d["scale"] is None else vals[f"dscale.{d['label']}"]
                    mats.append((labels, M, scale))
                    for l in labels:
                        if l not in full_labels:
                            full_labels.append(l)
                for (d, i), (labels, M, scale) in zip(members, mats):
                    B = np.zeros((M.shape[0], len(full_labels)))
                    for k, l in enumerate(labels):
                        B[:, full_labels.index(l)] = M[:, k] * scale
                    blocks.append(B)
                    ys.append(data[d["label"]][:, i])
                    W = weights[d["label"]]
                    ws.append(W[:, i] if W is not None else np.ones(M.shape[0]))
                S = np.concatenate(blocks, axis=0)
                y = np.concatenate(ys)
                rl, Sr, rel = _reduce(spec, vals, full_labels, S, x)
                # weights apply when any dataset *stacked at this aligned index* supplies one
                if any(weights[d["label"]] is not None for d, _ in members):
                    w = np.concatenate(ws)
                    Sr = Sr * w[:, None]
                    y = y * w
                if Sr.shape[1]:
                    c = solve(Sr, y)
                    out["cond"] = max(out["cond"], float(np.linalg.cond(Sr)))
                    r = y - Sr @ c
                else:
                    c, r = np.zeros(0), y.copy()
                cf = _expand(full_labels, rl, c, rel)
                clps_a.append(cf)
                labs_a.append(full_labels)
                res_a.append(r)
                out["number_of_clps"] += len(rl)
                ginfo["blocks"].append({"x": float(x), "datasets": [[d["label"], i] for d, i in members], "reduced_labels": rl})
                start = 0
                for (d, i), (labels, M, scale) in zip(members, mats):
                    n = M.shape[0]
                    per_ds[d["label"]]["res"][i] = r[start : start + n]
                    per_ds[d["label"]]["clp"][i] = np.array([cf[full_labels.index(l)] for l in labels])
                    per_ds[d["label"]]["mats"][i] = M
                    start += n
            del any_w
            gpen = _penalties(spec, vals, labs_a, clps_a, aligned)
            pen_vec.append(np.concatenate(res_a + [np.asarray(gpen, dtype=float)]))
            for d in ds:
                lab = d["label"]
                W = weights[lab]
                R = np.array(per_ds[lab]["res"]).T
                labels, _ = _dataset_matrix(spec, d, vals, 0)
                out["datasets"][lab] = {
                    "full": False, "labels": labels, "clp": np.array(per_ds[lab]["clp"]), "weighted_residual": R,
                    "weight": W, "residual": R if W is None else R / W, "matrices": per_ds[lab]["mats"],
                    "scale": 1.0 if d["scale"] is None else vals[f"dscale.{lab}"], "data": data[lab],
                }  # fmt: skip
        out["groups"][gname] = ginfo
        out["additional_penalty"].append(list(gpen))
    out["penalty"] = np.concatenate(pen_vec) if pen_vec else np.zeros(0)
    return out


def tolerance(ref, scale=1.0):
    return 1e3 * np.finfo(float).eps * ref["cond"] * max(1.0, scale) + 1e-11
