"""Helpers to build models from the *builtin* megacomplexes (decay, oscillation, pfid, artifact, spectral, ...)."""
from __future__ import annotations

import hashlib

import numpy as np

_MODEL_CLS = [None]


def model_class():
    if _MODEL_CLS[0] is None:
        from glotaran.builtin.megacomplexes.baseline import BaselineMegacomplex
        from glotaran.builtin.megacomplexes.clp_guide import ClpGuideMegacomplex
        from glotaran.builtin.megacomplexes.coherent_artifact import CoherentArtifactMegacomplex
        from glotaran.builtin.megacomplexes.damped_oscillation import DampedOscillationMegacomplex
        from glotaran.builtin.megacomplexes.decay import DecayMegacomplex
        from glotaran.builtin.megacomplexes.decay import DecayParallelMegacomplex
        from glotaran.builtin.megacomplexes.decay import DecaySequentialMegacomplex
        from glotaran.builtin.megacomplexes.pfid import PFIDMegacomplex
        from glotaran.builtin.megacomplexes.spectral import SpectralMegacomplex
        from glotaran.model import Model

        _MODEL_CLS[0] = Model.create_class_from_megacomplexes([
            DecayMegacomplex, DecayParallelMegacomplex, DecaySequentialMegacomplex, DampedOscillationMegacomplex,
            PFIDMegacomplex, CoherentArtifactMegacomplex, SpectralMegacomplex, BaselineMegacomplex, ClpGuideMegacomplex,
        ])  # fmt: skip
    return _MODEL_CLS[0]


def make_parameters(values: dict, options: dict | None = None):
    from glotaran.parameter import Parameter
    from glotaran.parameter import Parameters

    options = options or {}
    return Parameters({k: Parameter(label=k, value=float(v), **options.get(k, {})) for k, v in values.items()})


def make_model(model_dict):
    md = dict(model_dict)
    if "k_matrix" in md:
        md["k_matrix"] = {
            name: {"matrix": {tuple(k.split("<-")) if isinstance(k, str) else tuple(k): v for k, v in km["matrix"].items()}}
            for name, km in md["k_matrix"].items()
        }
    return model_class()(**md)


def filled_dataset(model, parameters, label):
    from glotaran.model.item import fill_item

    return fill_item(model.dataset[label], model, parameters)


def calc_matrix(model_dict, values, dataset_label, global_axis, model_axis, megacomplex_index=0, options=None, prime=()):
    """labels, matrix of one megacomplex of a dataset, through the public calculate_matrix.

    `prime`: sibling configurations [(model_dict, values), ...] evaluated first in the same process on the same axes
    (process-level state - caches, memoised decisions, shared defaults - left behind by a sibling must not leak)."""
    for pmd, pvals in prime:
        try:
            pm = make_model(pmd)
            pds = filled_dataset(pm, make_parameters(pvals, options), dataset_label)
            pds.megacomplex[megacomplex_index].calculate_matrix(pds, np.array(global_axis, dtype=float), np.array(model_axis, dtype=float))
        except Exception:  # noqa: BLE001, S110  (a sibling need not be a valid configuration)
            pass
    model = make_model(model_dict)
    params = make_parameters(values, options)
    ds = filled_dataset(model, params, dataset_label)
    mc = ds.megacomplex[megacomplex_index]
    ga, ma = np.array(global_axis, dtype=float), np.array(model_axis, dtype=float)
    labels, matrix = mc.calculate_matrix(ds, ga, ma)
    first = np.array(matrix, copy=True)
    _evaluation_history(mc, ds, ga, ma, np.asarray(global_axis, dtype=float), np.asarray(model_axis, dtype=float), list(labels), matrix, first)
    return list(labels), np.asarray(matrix), mc, ds


class HistoryError(AssertionError):
    """a megacomplex evaluation depends on, or leaves behind, more than its arguments"""


def _evaluation_history(mc, ds, ga, ma, ga0, ma0, labels, matrix, first):
    """Every matrix evaluation of the builtin-model checks is followed by an evaluation of the same filled model on
    other axes of the same lengths and by a repetition of the first one: the repetition must be bit-identical, the
    axes handed in must be untouched, and the array returned first must not change afterwards."""
    if not (np.array_equal(ga, ga0) and np.array_equal(ma, ma0)):
        raise HistoryError("calculate_matrix modified the axes it was given")
    # decoy 1: other values everywhere; decoy 2: same first point, last point and length - other points in between
    inner_g, inner_m = ga.copy(), ma.copy()
    if ga.size > 2:
        inner_g[1:-1] = 0.5 * (ga[1:-1] + ga[2:])
    if ma.size > 2:
        inner_m[1:-1] = 0.5 * (ma[1:-1] + ma[2:])
    for dg, dm in ((ga[::-1] * 1.01 + 0.5, ma + 0.37), (inner_g, inner_m)):
        try:
            mc.calculate_matrix(ds, dg, dm)
        except Exception:  # noqa: BLE001, S110  (the decoy axes need not be meaningful for every model)
            pass
    labels2, again = mc.calculate_matrix(ds, ga, ma)
    if list(labels2) != labels or not np.array_equal(np.asarray(again), first, equal_nan=True):
        raise HistoryError("a repeated evaluation (after an evaluation on other axes) differs from the first")
    if not np.array_equal(np.asarray(matrix), first, equal_nan=True):
        raise HistoryError("a later evaluation changed the array returned by the first")
    if not (np.array_equal(ga, ga0) and np.array_equal(ma, ma0)):
        raise HistoryError("calculate_matrix modified the axes it was given")


def dataset_matrix(model_dict, values, dataset_label, global_axis, model_axis, options=None):
    """combined matrix of all megacomplexes of the dataset (MatrixProvider.calculate_dataset_matrix)"""
    from glotaran.optimization.matrix_provider import MatrixProvider

    model = make_model(model_dict)
    params = make_parameters(values, options)
    ds = filled_dataset(model, params, dataset_label)
    c = MatrixProvider.calculate_dataset_matrix(ds, np.asarray(global_axis, dtype=float), np.asarray(model_axis, dtype=float))
    return list(c.clp_labels), np.asarray(c.matrix)


def make_scheme(model_dict, values, data, options=None, **kw):
    from glotaran.project import Scheme

    kw.setdefault("maximum_number_function_evaluations", 1)
    kw.setdefault("add_svd", False)
    return Scheme(model=make_model(model_dict), parameters=make_parameters(values, options), data=data, **kw)


def noisy_dataset(time, spectral, seed=0, salt="b", dims=("time", "spectral")):
    import xarray as xr

    from vf import core

    t, g = np.asarray(time, dtype=float), np.asarray(spectral, dtype=float)
    arr = np.outer(np.exp(-0.5 * np.abs(t)), 1.0 + 0.2 * np.arange(g.size)) + 0.5 * core.det_noise((t.size, g.size), seed, salt, t.size, g.size)
    if dims == ("time", "spectral"):
        return xr.Dataset({"data": (dims, arr)}, coords={"time": t, "spectral": g})
    return xr.Dataset({"data": (dims, arr.T.copy())}, coords={"time": t, "spectral": g})


def objective_digest():
    """penalty digest of two builtin models that run the parallel kernels (used by the C10 thread sweep)"""
    from glotaran.optimization.optimizer import Optimizer

    t = np.concatenate([np.linspace(-1, 1, 21), np.geomspace(1.2, 50, 12)])
    g = np.array([600.0, 620.0, 650.0, 700.0])
    md = {
        "megacomplex": {"m1": {"type": "decay-parallel", "compartments": ["s1", "s2", "s3"], "rates": ["k.1", "k.2", "k.3"]},
                        "m2": {"type": "coherent-artifact", "order": 3},
                        "m3": {"type": "damped-oscillation", "labels": ["o1"], "frequencies": ["osc.f"], "rates": ["osc.r"]}},
        "irf": {"irf1": {"type": "spectral-multi-gaussian", "center": ["irf.c"], "width": ["irf.w1", "irf.w2"], "scale": ["irf.s1", "irf.s2"],
                         "dispersion_center": "irf.dc", "center_dispersion_coefficients": ["irf.d1", "irf.d2"],
                         "width_dispersion_coefficients": ["irf.wd1"]}},
        "dataset": {"d1": {"megacomplex": ["m1", "m2", "m3"], "irf": "irf1"}},
    }  # fmt: skip
    vals = {"k.1": 0.11, "k.2": 1.3, "k.3": 7.0, "irf.c": 0.1, "irf.w1": 0.12, "irf.w2": 0.4, "irf.s1": 1.0, "irf.s2": 0.3,
            "irf.dc": 650.0, "irf.d1": 0.2, "irf.d2": -0.05, "irf.wd1": 0.02, "osc.f": 35.0, "osc.r": 0.4}  # fmt: skip
    scheme = make_scheme(md, vals, {"d1": noisy_dataset(t, g)})
    opt = Optimizer(scheme, verbose=False, raise_exception=True)
    lab, x, _, _ = scheme.parameters.get_label_value_and_bounds_arrays(exclude_non_vary=True)
    opt._free_parameter_labels = lab
    h = hashlib.sha1()
    for f in (1.0, 1.01):
        h.update(np.ascontiguousarray(np.asarray(opt.objective_function(x * f))).tobytes())
    return h.hexdigest()
