"""E2: explicit-state breadth-first exploration where a state is the event history reaching it.

`build(history)` re-creates a *fresh* real object, replays the history through the real functions and
returns (digest_of_complete_state, violations, info).  Histories are enqueued only when the digest is new.
The search either closes (no new digest at some depth <= max_depth: all reachable states were visited)
or stops at the depth bound, which is reported.
"""
from __future__ import annotations

import collections


def bfs(events_for, build, max_depth: int, initial=()):
    """events_for(history, info) -> iterable of events; build(history) -> (digest, violations, info)."""
    d0, v0, info0 = build(list(initial))
    seen = {d0: list(initial)}
    infos = {d0: info0}
    frontier = collections.deque([(list(initial), info0)])
    transitions = 0
    violations = [dict(v, history=list(initial)) for v in v0]
    outcomes = set()
    maxd = 0
    closed = True
    while frontier:
        hist, info = frontier.popleft()
        if len(hist) >= max_depth:
            closed = False  # successors of this state were not expanded
            continue
        for ev in events_for(hist, info):
            h2 = hist + [ev]
            d, vs, info2 = build(h2)
            transitions += 1
            outcomes.add(repr(info2.get("outcome")) if isinstance(info2, dict) else None)
            for v in vs:
                violations.append(dict(v, history=h2))
            if d not in seen:
                seen[d] = h2
                infos[d] = info2
                maxd = max(maxd, len(h2))
                frontier.append((h2, info2))
    return {
        "states": len(seen),
        "transitions": transitions,
        "max_depth": maxd,
        "closed": closed,
        "violations": violations,
        "outcomes": outcomes,
        "state_histories": seen,
        "infos": infos,
    }
