"""Generate /verif/MANIFEST.json from the table below:  /venv/bin/python -m vf.manifest"""
import json
import os
import sys

HERE = os.path.dirname(os.path.dirname(os.path.abspath(__file__)))

# pid -> (level, engine, technique, level text, level note, design ref)
CHECKS = {
    "C19": (
        "model_checking",
        "E2+E4",
        "explicit-state BFS over register/set_plugin histories on the real registries to closure (all reachable "
        "states), reference-model conformance on every transition; TLC model with every edge replayed on the code",
        "All reachable states of the three real plugin registries over a 2-name x 2-class alphabet are visited "
        "(search closes) and every transition is compared with a reference model of the statement, including "
        "warnings, name lists and load/save dispatch. History-dependent behaviour is exactly what example tests miss.",
        "Alphabet bounded to two short names and two plugin classes; plugin identity = (class, format).",
        "DESIGN.md section 4 / C19",
    ),
    "C12": (
        "model_checking",
        "E2",
        "exhaustive enumeration of all labelled reference DAGs (n<=5 quick, n<=6 thorough) x explicit-state BFS over "
        "set/update/copy/export/edit/restore histories on the real Parameters object, bit-exact topological reference "
        "evaluator; enumerated real fits monitored at every model evaluation, result and history row",
        "Every dependency graph in every declaration order up to the bound is constructed by every route and driven "
        "through every update history up to the depth bound; all reachable parameter states are compared bit-exactly "
        "with an independent evaluation. Order dependence and staleness are properties of all orderings and histories.",
        "Expression forms limited to +, *, sqrt; 3 value vectors; label alphabet fixed.",
        "DESIGN.md section 4 / C12",
    ),
    "C02": (
        "exploration",
        "E1",
        "complete t-way enumeration (t=3 quick, t=4 + full product thorough) of a 16-axis scheme-feature space, each "
        "scheme driven through a short construction history (three optimisers from one scheme); entry-for-entry "
        "comparison of the real objective with an independent numpy reference evaluation",
        "Every combination of up to t non-default features (linking, axes overlap, index dependence, weights, "
        "scales, several megacomplexes, constraints, relations, penalties, NNLS, full model, layout, groups, label "
        "sets) is built as a real Scheme and its penalty vector compared entry for entry with a reference that "
        "shares no pipeline code; group independence is checked bit-exactly.",
        "Harness megacomplexes with closed-form columns; tiny axes; interval bounds on axis points (C08 decides edges).",
        "DESIGN.md section 4 / C02",
    ),
    "C03": (
        "exploration",
        "E1",
        "complete t-way enumeration of the scheme-feature space x label sets (substrings, coinciding concatenations); "
        "identities on optimize().data plus agreement with the independent reference",
        "Every enumerated scheme is optimised (1 evaluation, noisy data) and every result dataset is checked: "
        "data=fitted+residual, fitted=scale*matrix*clp(*global_matrix^T), weighted_residual=weight*residual, own "
        "coordinates and labels, exact zeros / relations, residual/clp/matrix/weight equal to the reference.",
        "Same generator limits as C02.",
        "DESIGN.md section 4 / C03",
    ),
    "C09": (
        "exploration",
        "E1",
        "exhaustive enumeration of all ordered axis tuples over a point grid x tolerances x methods x weight placement; "
        "reference alignment (all tie resolutions) vs every table of DataProviderLinked; end-to-end optimize vs reference",
        "All 2-dataset (thorough: also 3-dataset) axis configurations up to 3 points on a grid with offsets are "
        "aligned by the real provider and compared table by table with the statement read literally; end-to-end "
        "results are compared with the independent reference, including 'clps shared iff same aligned point'.",
        "Grid of 5 (quick) / 7 (thorough) candidate points, axes of <= 3 points, 6 tolerances.",
        "DESIGN.md section 4 / C09",
    ),
    "C08": (
        "exploration",
        "E1",
        "exhaustive enumeration of all ordered bound pairs from a bound alphabet per axis x item kind x linking, "
        "observed on optimize() results; set-semantics oracle (must/may), complement, union, monotonicity over all nested pairs",
        "Every interval that can be formed from bounds below/on/between/above the axis points and +-inf is applied "
        "through the real pipeline for zero/only/relation/penalty/weight items and the affected index set is compared "
        "with the statement's set semantics; monotonicity is checked on all nested pairs of the enumeration.",
        "Axes of 1-5 points; generic data; the affected set is inferred from exact zeros/ratios/weights in the result.",
        "DESIGN.md section 4 / C08",
    ),
    "C10": (
        "model_checking",
        "E2+E5",
        "explicit-state BFS over objective-evaluation histories (incl. a raising evaluation) on fresh real Optimizers "
        "with a deep full-state digest; partial-order (conflict-relation) exploration of the prange kernels' source - by "
        "name over all shapes and in situ (every numba dispatcher replaced by its source during real objective "
        "evaluations) + compiled runs under every thread count",
        "For every scheme of the feature enumeration all evaluation sequences up to the depth bound are replayed on a "
        "fresh Optimizer and the penalty compared bit-exactly with a stateless evaluation (the search closes); the "
        "caller's scheme is snapshotted; the parallel kernels' iterations are shown conflict-free for all shapes up to "
        "the bound (one Mazurkiewicz class) and compiled results are bit-identical for thread counts 1..16.",
        "Native numba threads cannot be scheduled by the harness (see DESIGN section 5); 5 vectors; depth 3/4.",
        "DESIGN.md section 4 / C10",
    ),
    "C11": (
        "exploration",
        "E1",
        "exhaustive enumeration of parameter sets over kind x value position; monitor on every vector evaluated in "
        "every optimisation over all pairs of parameter kinds x methods x starts",
        "All small parameter sets are round-tripped through the optimiser vector; in every enumerated fit every "
        "evaluated vector, history record and the result are checked for feasibility, fixed/expression consistency and "
        "label/Jacobian/covariance/standard-error ordering.",
        "Two-rate model; iterates are SciPy's (configurations are enumerated, trajectories monitored).",
        "DESIGN.md section 4 / C11",
    ),
    "C15": (
        "fault_enumeration",
        "E3",
        "deviation-bounded fault enumeration: fault-free run fixes N model evaluations, then every run with one deviation "
        "(each exception type / non-finite matrix at evaluation k=1..N; thorough: all pairs) is executed to completion",
        "For every scheme x method x verbose x raise_exception every single-fault schedule is run on the real optimize() "
        "and judged: containment, termination reason, parameters from an error-free evaluation, datasets belonging to "
        "them, identity of the propagated exception, stdout identity, caller's scheme; every kind of invalid scheme is "
        "rejected before any evaluation. Non-finite runs execute under a forked watchdog.",
        "Faults are injected at OptimizationGroup.calculate; max_nfev 3 (quick) / 5 (thorough).",
        "DESIGN.md section 4 / C15",
    ),
    "C13": (
        "exploration",
        "E1",
        "complete t-way enumeration of the scheme-feature space x methods x max_nfev; every statistic of every successful "
        "result recomputed from the result datasets, a fresh re-evaluation and the independent reference",
        "Every reported statistic is tied to the others and to the data on every enumerated fit: residual and clp counts "
        "against the reference, chi-square from the datasets and penalties, cost against a fresh objective evaluation and "
        "the numpy reference, dof/reduced chi2/RMSE formulae, per-dataset RMSEs, covariance symmetric PSD pseudo-inverse.",
        "Harness megacomplexes; fits that do not return (scipy nnls / lstsq on overflowing input) are killed by a "
        "watchdog and counted as out of domain.",
        "DESIGN.md section 4 / C13",
    ),
    "C01": (
        "exploration",
        "E1",
        "bounded exhaustive enumeration of matrix families x data vectors x both residual functions; per-instance "
        "optimality certificate (orthogonality / KKT, brute force over support sets, lstsq cross-check)",
        "Every n-subset of a rate ladder with near-collinear neighbours, IRF-convolved columns from the real kernel, "
        "oscillation pairs, prescribed-condition matrices up to 1e10 and degenerate shapes are solved with both "
        "functions for in-range, orthogonal, generic, zero and rescaled data; the certificate decides optimality "
        "against all competing clp vectors at once; the dispatch table is bound through EstimationProvider.",
        "Finite grids; SciPy nnls failures (max iterations / singular normal equations) are counted as out of domain.",
        "DESIGN.md section 4 / C01",
    ),
    "C04": (
        "exploration",
        "E1",
        "exhaustive enumeration of all compartmental structures (every subset of the N^2 K-matrix entries, N<=3; N=4 "
        "bounded) x rate patterns x excitations x declaration orders x K-matrix splits; oracle = matrix exponential",
        "Every K-matrix structure with up to 3 compartments is evaluated through the real decay megacomplexes for every "
        "excited subset, normalisation mode, declaration order and K-matrix split and compared with expm(K t) j computed "
        "independently (Pade); sequential/parallel megacomplexes against the equivalent K; result-level rates, lifetimes, "
        "A-matrix, DAS and K-matrix identities.",
        "Spectra with complex or nearly degenerate eigenvalues are outside the property (counted out of domain).",
        "DESIGN.md section 4 / C04",
    ),
    "C05": (
        "exploration",
        "E1",
        "grid enumeration of rate x width x time (incl. both numerical branches and the points straddling their switch) "
        "against an independent log-space evaluation cross-validated by quadrature; differential per-index binding for "
        "all shift / dispersion configurations",
        "The closed form of the real kernel is compared on every grid point with a reference that does not use erf/erfcx; "
        "through the megacomplexes every multi-Gaussian broadcasting/scale/normalise pattern is checked, and for every "
        "enumerated shifted/dispersed IRF the matrix at each global index must equal the plain-IRF matrix at that index's "
        "reference effective centre and width.",
        "Finite grids; backsweep stays disabled.",
        "DESIGN.md section 4 / C05",
    ),
    "C07": (
        "exploration",
        "E1",
        "grid enumeration of oscillation / PFID / artifact / shape parameters; Faddeeva-function reference for the "
        "IRF-convolved (anti-)causal oscillation with one proportionality constant per dataset; decay-model effective IRF "
        "position per index; closed-form derivatives and shape limits",
        "Every grid point is compared with the mathematical definition evaluated independently: Re/Im of exp(-gt-iwt) by "
        "label, convolution with the IRF through scipy.special.wofz incl. the truncation seams and far before the pulse, "
        "the per-index IRF position of the decay model for shifted/dispersed IRFs, Gaussian derivatives, shape formulae "
        "and skewness -> 0.",
        "omega*sigma limited to the Faddeeva reference's range; |rate|*width >= 5 recorded as known finding.",
        "DESIGN.md section 4 / C07",
    ),
    "C06": (
        "exploration",
        "E1",
        "exhaustive enumeration of declaration-order permutations (labels per megacomplex, megacomplexes per dataset, "
        "datasets) with a differential by-label oracle on the whole result; composition oracle on the combined matrix",
        "Every permuted twin of every builtin megacomplex family is optimised and every result variable, selected by "
        "label, must equal the base result's; the combined matrix of several megacomplexes (shared labels, scales, mixed "
        "index dependence) must be the per-label sum of the single matrices for every megacomplex order.",
        "Columns are anchored to their definitions by C04/C05/C07; decay-sequential order is semantic and excluded.",
        "DESIGN.md section 4 / C06",
    ),
    "C14": (
        "exploration",
        "E1",
        "full product of builtin model combinations (kinetics x IRF x add-on x clp/full x datasets x coordinates x scale); "
        "simulate at the generating parameters, objective/clp oracles at the truth, corner-perturbation recovery fits",
        "Every model combination is simulated noise-free with label-specific clps and must be reproduced by the fitting "
        "path at the generating parameters (objective <= 1e-9 |data|, clp = generating clp / scale); simulate() is checked "
        "for idempotence, input preservation and seeded-noise reproducibility; identifiable models are refitted from the "
        "truth and from every +-20% corner.",
        "Recovery set fixed in the check; optimiser trajectories are SciPy's (watchdog on fits).",
        "DESIGN.md section 4 / C14",
    ),
    "C16": (
        "exploration",
        "E1",
        "exhaustive enumeration of label shapes x values x bounds x flags x column-level mixes x 4 formats x options x 2 "
        "save-load cycles with per-field bit-exact comparison; specification routes against programmatic twins",
        "Every enumerated parameter table is written and read back twice in every format and compared field by field "
        "(bit-exact floats, NaN aware, label order, Parameters.__eq__); column-level mixes exercise per-column type "
        "inference; yml/dict/list specifications with defaults, nesting, numbering and scientific notation are compared "
        "with programmatically built twins through from_dict/from_list, yml_str and yml files.",
        "xlsx numbers carry 16 significant digits (openpyxl); tolerated as that format's text precision.",
        "DESIGN.md section 4 / C16",
    ),
    "C20": (
        "exploration",
        "E1",
        "exhaustive single-fault (and in-item double-fault) mutation of every reference position / referenced item / "
        "parameter of base models covering all builtin item types; hand-written reference-position table as oracle",
        "For every base model the clean model must validate, fill, evaluate and generate complete parameters; every "
        "mutant with one dangling reference (each position misspelled, each referenced item removed, each parameter "
        "removed) and pairs of faults inside one item must be reported - naming the label - without an internal error; "
        "unique / exclusive / list-length rules are exercised in every megacomplex order.",
        "Four base models; reference positions listed by hand (REFS).",
        "DESIGN.md section 4 / C20",
    ),
    "C18": (
        "model_checking",
        "E2+E3",
        "exhaustive overwrite matrix (save function x format incl. failing/unknown plugins x target state x allow_overwrite) "
        "with byte+mtime tree snapshots; enumeration of every Project.optimize name history up to the depth bound replayed on "
        "fresh real project folders against a reference model (name -> run count)",
        "Every cell of the save matrix is executed on a scratch tree and judged on refusal, plugin call order and "
        "byte-identity of all files; every sequence of result names (prefix-related, containing '_run_', dotted, with stray "
        "folders) is replayed through the real Project.optimize / save / lookup / load code with invariants after every "
        "event; import/generate flag histories likewise.",
        "The fit inside Project.optimize is replaced by a genuine pre-computed Result; depth 3 (quick) / 4 (thorough).",
        "DESIGN.md section 4 / C18",
    ),
    "C17": (
        "exploration",
        "E1",
        "enumeration of generator models, result configurations x SavingOptions x target kinds (saved, loaded, moved, re-saved) "
        "and dataset shapes x coordinate kinds x formats, with specification / bit-level / relative-reference oracles",
        "Every generator model is saved and loaded (identical specification, bit-identical objective, idempotent second "
        "save); every enumerated result is saved with every SavingOptions / target combination, loaded, moved, loaded and "
        "re-saved with the source deleted (parameters, statistics, histories, bit-equal datasets, only relative resolving "
        "references); every dataset shape and coordinate kind goes through netCDF (bit-equal) and both ASCII layouts.",
        "Fields declared exclude_from_dict (jacobian, covariance, cost, additional_penalty) are not part of a saved result.",
        "DESIGN.md section 4 / C17",
    ),
}

PENDING_REASON = "check under construction in this round - not claimed until its check runs clean on the unchanged tree"


def main():
    props = [json.loads(line)["id"] for line in open(os.path.join(HERE, "properties.jsonl"))]
    checks = []
    for pid in props:
        if pid not in CHECKS:
            continue
        level, engine, technique, text, note, ref = CHECKS[pid]
        checks.append(
            {
                "property_id": pid,
                "quick_cmd": f"./check {pid} --tier quick",
                "thorough_cmd": f"./check {pid} --tier thorough",
                "evidence_file": f"evidence/{pid}.json",
                "replay_cmd_template": f"./check {pid} --replay {{path}}",
                "engine": engine,
                "level_claimed": {"category": level, "text": text, "design_ref": ref},
                "level_note": note,
                "technique": technique,
            }
        )
    na = [{"property_id": p, "reason": NOT_APPLICABLE.get(p, PENDING_REASON)} for p in props if p not in CHECKS]
    man = {
        "version": 1,
        "setup_cmd": "./setup.sh",
        "hooks": {
            "guard": "GLOTARAN_PYGLOTARAN_VERIF",
            "enable": "no source hooks are needed: checks import glotaran from /repo's working tree (editable "
            "install in /venv) and wrap Python attributes from the harness process; the guard variable is set by "
            "./check but read by nothing in /repo",
            "baseline_off_cmd": "cd /repo && env -u GLOTARAN_PYGLOTARAN_VERIF /venv/bin/python -m pytest -ra -q "
            "-p no:cacheprovider --timeout=900 --continue-on-collection-errors",
            "source_commits": [],
            "add_only": True,
        },
        "engines": [
            {"name": "E1", "path": "vf/core.py", "serves_properties": ["C01", "C02", "C03", "C04", "C05", "C06", "C07", "C08", "C09", "C11", "C13", "C14", "C16", "C17", "C20"], "kind_free_text": "bounded exhaustive input-space enumeration with reference oracles, 16 workers"},
            {"name": "E2", "path": "vf/explore.py", "serves_properties": ["C10", "C12", "C18", "C19"], "kind_free_text": "explicit-state BFS over event histories replayed on fresh real objects, full-state digests"},
            {"name": "E3", "path": "vf/checks/c15.py", "serves_properties": ["C15"], "kind_free_text": "deviation-bounded fault enumerator (all single / pairs of deviations from the fault-free environment), forked watchdog"},
            {"name": "E5", "path": "vf/prange.py", "serves_properties": ["C10"], "kind_free_text": "partial-order (conflict relation) exploration of numba prange kernels on py_func with recording array proxies; vf/insitu.py applies it to every dispatcher reached by real objective evaluations"},
            {"name": "E4", "path": "vf/tlc.py", "serves_properties": ["C18", "C19"], "kind_free_text": "TLA+ model explored by TLC; every edge of the dumped state graph replayed against the implementation"},
        ],
        "checks": checks,
        "notes": "See DESIGN.md. known_findings.json lists recorded defects and fixed: entries.",
        "not_applicable": na,
    }
    for e in man["engines"]:
        pass
    json.dump(man, open(os.path.join(HERE, "MANIFEST.json"), "w"), indent=1)
    try:
        import jsonschema

        jsonschema.validate(man, json.load(open("/root/.vp/MANIFEST.schema.json")))
        print("MANIFEST.json valid;", len(checks), "checks,", len(na), "not claimed")
    except ImportError:
        print("written (jsonschema unavailable)")


NOT_APPLICABLE: dict = {}

if __name__ == "__main__":
    sys.exit(main())
