"""Shared runner plumbing: environment, parallel enumeration, evidence, replay, known findings.

Every check module (vf/checks/cNN.py) exposes

    LEVEL      -- evidence level
    CASE_FUNCS -- {name: function(case) -> result dict}   (case = plain JSON data)
    run(run)   -- enumerates the bounded spaces and feeds results into `run`

A case function returns a dict with the keys
    status      "ok" | "ood"   (out of the property's domain; never counted as coverage)
    violations  list of {"signature": str, "detail": {...}}   (empty when the property held)
    key         hashable/JSON value identifying the distinct non-trivial class of the case (or None)
    outcome     small JSON value describing what was observed (distinct outcomes are counted)
    states/transitions  (optional ints, summed)
"""
from __future__ import annotations

import os
import sys

# environment must be fixed before numpy / numba are imported anywhere
os.environ.setdefault("PYTHONHASHSEED", "0")
for _v in ("OPENBLAS_NUM_THREADS", "OMP_NUM_THREADS", "MKL_NUM_THREADS", "NUMBA_NUM_THREADS"):
    os.environ.setdefault(_v, "1")
os.environ.setdefault("GLOTARAN_PYGLOTARAN_VERIF", "1")
# the watchdog forks workers that have already run numba kernels: the OpenMP layer aborts in that situation
os.environ.setdefault("NUMBA_THREADING_LAYER", "workqueue")
if os.environ.get("VERIF_REPO"):
    sys.path.insert(0, os.environ["VERIF_REPO"])

import hashlib  # noqa: E402
import json  # noqa: E402
import math  # noqa: E402
import multiprocessing as mp  # noqa: E402
import time  # noqa: E402
import traceback  # noqa: E402
import warnings  # noqa: E402
from pathlib import Path  # noqa: E402

ROOT = Path(__file__).resolve().parent.parent
EVIDENCE_DIR = ROOT / "evidence"
REPLAY_DIR = ROOT / "replays"
KNOWN_FINDINGS = ROOT / "known_findings.json"
EVIDENCE_SCHEMA = Path("/root/.vp/EVIDENCE.schema.json")


def jobs() -> int:
    return int(os.environ.get("VERIF_JOBS", "16"))


def jsonable(o):
    """Convert numpy / tuples / sets / floats incl. nan+inf to strict-JSON data."""
    import numpy as np

    if isinstance(o, dict):
        return {str(k): jsonable(v) for k, v in o.items()}
    if isinstance(o, (list, tuple)):
        return [jsonable(v) for v in o]
    if isinstance(o, (set, frozenset)):
        return sorted((jsonable(v) for v in o), key=repr)
    if isinstance(o, np.ndarray):
        return jsonable(o.tolist())
    if isinstance(o, (np.integer,)):
        return int(o)
    if isinstance(o, (np.floating, float)):
        f = float(o)
        if math.isnan(f):
            return "nan"
        if math.isinf(f):
            return "inf" if f > 0 else "-inf"
        return f
    if isinstance(o, (np.bool_,)):
        return bool(o)
    if isinstance(o, (str, int, bool)) or o is None:
        return o
    if isinstance(o, complex):
        return [o.real, o.imag]
    return repr(o)


def digest(o) -> str:
    return hashlib.sha1(json.dumps(jsonable(o), sort_keys=True).encode()).hexdigest()[:12]


def V(signature: str, **detail) -> dict:
    """Build a violation record."""
    return {"signature": signature, "detail": jsonable(detail)}


def ok(key=None, outcome=None, violations=None, **extra) -> dict:
    r = {"status": "ok", "key": key, "outcome": outcome, "violations": violations or []}
    r.update(extra)
    return r


def ood(reason: str) -> dict:
    return {"status": "ood", "reason": reason, "key": None, "outcome": None, "violations": []}


_FUNCS: dict = {}


WATCHDOG: dict = {}  # case-function name -> seconds; such cases run in a forked child that is killed on timeout


def run_forked(func, arg, seconds):
    """Run func(arg) in a forked child; returns ("ok", value) | ("hang", None) | ("died", info).
    Needed where the code under test can spin forever inside C (LAPACK on non-finite input)."""
    import pickle
    import select
    import signal

    r, w = os.pipe()
    pid = os.fork()
    if pid == 0:
        try:
            os.close(r)
            try:
                data = pickle.dumps(("ok", func(arg)))
            except BaseException as e:  # noqa: BLE001
                data = pickle.dumps(("exc", (type(e).__name__, str(e)[:500], traceback.format_exc()[-2500:])))
            with os.fdopen(w, "wb") as f:
                f.write(data)
        finally:
            os._exit(0)
    os.close(w)
    chunks, hung, t0 = [], False, time.time()
    with os.fdopen(r, "rb") as f:
        while True:
            left = seconds - (time.time() - t0)
            if left <= 0 or not select.select([f], [], [], left)[0]:
                hung = True
                break
            b = f.read(1 << 16)
            if not b:
                break
            chunks.append(b)
    if hung:
        os.kill(pid, signal.SIGKILL)
    os.waitpid(pid, 0)
    if hung:
        return "hang", None
    if not chunks:
        return "died", None
    return pickle.loads(b"".join(chunks))


def _call(args):
    fname, case = args
    try:
        with warnings.catch_warnings():
            warnings.simplefilter("ignore")
            if fname in WATCHDOG:
                status, val = run_forked(_FUNCS[fname], case, WATCHDOG[fname])
                if status == "ok":
                    res = val
                elif status == "exc":
                    res = {"status": "ok", "key": None, "outcome": "exception", "violations": [
                        V("unexpected-exception/" + val[0], message=val[1], traceback=val[2])]}
                else:
                    res = {"status": "ood", "reason": f"watchdog-{status}-after-{WATCHDOG[fname]}s", "key": None,
                           "outcome": None, "violations": [], "watchdog": status}
            else:
                res = _FUNCS[fname](case)
    except Exception as e:  # harness or implementation crash: reported as a violation of its own
        res = {
            "status": "ok",
            "key": None,
            "outcome": "exception",
            "violations": [
                V(
                    "unexpected-exception/" + type(e).__name__,
                    message=str(e)[:500],
                    traceback=traceback.format_exc()[-2500:],
                )
            ],
        }
    return fname, case, res


class Run:
    def __init__(self, pid: str, level: str, tier: str, seed: int, funcs: dict):
        self.pid, self.level, self.tier, self.seed = pid, level, tier, seed
        self.funcs = funcs
        self.t0 = time.time()
        self.evaluations = 0
        self.ood = 0
        self.ood_reasons: dict = {}
        self.keys: set = set()
        self.outcomes: set = set()
        self.states = 0
        self.transitions = 0
        self.traces = 0
        self.max_depth = 0
        self.violations: list = []
        self.samples: list = []
        self.bounds: dict = {}
        self.rule = ""
        self.assumptions: list = []
        self.exhaustive = True
        self.extra: dict = {}
        self.parts: dict = {}
        self.payloads: dict = {}
        self._pool = None
        _FUNCS.clear()
        _FUNCS.update(funcs)
        self.watchdog_cases: list = []

    # ------------------------------------------------------------------ execution
    def pool(self):
        if self._pool is None and jobs() > 1:
            self._pool = mp.get_context("fork").Pool(jobs())
        return self._pool

    def map(self, fname: str, cases, part: str | None = None, chunksize: int | None = None):
        """Run CASE_FUNCS[fname] on every case (complete enumeration), aggregate results."""
        cases = list(cases)
        n = len(cases)
        part = part or fname
        st = self.parts.setdefault(part, {"cases": 0, "ood": 0, "violations": 0, "wall_s": 0.0})
        t = time.time()
        # rotate enumeration order by the seed (the *set* of cases never depends on the seed)
        if n and self.seed:
            k = self.seed % n
            cases = cases[k:] + cases[:k]
        args = [(fname, c) for c in cases]
        pool = self.pool() if n > 1 else None
        if pool is not None:
            cs = chunksize or max(1, min(256, n // (jobs() * 8) or 1))
            it = pool.imap_unordered(_call, args, chunksize=cs)
        else:
            it = map(_call, args)
        sample_every = max(1, n // 3)
        for i, (fn, case, res) in enumerate(it):
            self.absorb(fn, case, res, part)
            if (i + (self.seed % sample_every)) % sample_every == 0 and len(self.samples) < 12:
                self.samples.append({"part": part, "case": jsonable(case), "outcome": jsonable(res.get("outcome"))})
        st["cases"] += n
        st["wall_s"] = round(st["wall_s"] + time.time() - t, 2)
        return st

    def absorb(self, fname, case, res, part=None):
        part = part or fname
        st = self.parts.setdefault(part, {"cases": 0, "ood": 0, "violations": 0, "wall_s": 0.0})
        self.evaluations += 1
        if res.get("watchdog"):
            self.watchdog_cases.append(jsonable(case))
        if res.get("status") == "ood":
            self.ood += 1
            st["ood"] += 1
            r = res.get("reason", "?")
            self.ood_reasons[r] = self.ood_reasons.get(r, 0) + 1
            return
        if "payload" in res:
            self.payloads.setdefault(part, []).append((case, res["payload"]))
        if res.get("key") is not None:
            self.keys.add(part + ":" + (res["key"] if isinstance(res["key"], str) else digest(res["key"])))
        if res.get("outcome") is not None:
            o = res["outcome"]
            self.outcomes.add(part + ":" + (o if isinstance(o, str) else digest(o)))
        self.states += int(res.get("states", 0))
        self.transitions += int(res.get("transitions", 0))
        self.traces += int(res.get("traces", 0))
        self.max_depth = max(self.max_depth, int(res.get("max_depth", 0)))
        for v in res.get("violations", []):
            st["violations"] += 1
            self.violations.append({"func": fname, "case": jsonable(case), **v})

    # ------------------------------------------------------------------ reporting
    def finish(self) -> int:
        if self._pool is not None:
            self._pool.close()
            self._pool.join()
        known = load_known(self.pid)
        new, matched = [], {}
        for v in self.violations:
            k = match_known(known, v)
            if k is None:
                new.append(v)
            else:
                matched.setdefault(k["id"], [k, 0])
                matched[k["id"]][1] += 1
        for kid, (k, cnt) in sorted(matched.items()):
            print(f"KNOWN-FINDING: property={self.pid} {k['what']} [{kid}; {cnt} enumerated cases]")
        # group new violations by signature; write one replay per signature (smallest case first)
        by_sig: dict = {}
        for v in new:
            by_sig.setdefault(v["signature"], []).append(v)
        REPLAY_DIR.mkdir(exist_ok=True)
        for sig, vs in sorted(by_sig.items()):
            vs.sort(key=lambda v: len(json.dumps(v["case"])))
            v = vs[0]
            path = REPLAY_DIR / f"{self.pid}-{digest([sig, v['case']])}.json"
            path.write_text(
                json.dumps(
                    {
                        "property": self.pid,
                        "tier": self.tier,
                        "seed": self.seed,
                        "func": v["func"],
                        "case": v["case"],
                        "finding_signature": sig,
                        "detail": v["detail"],
                        "same_signature_cases": len(vs),
                    },
                    indent=1,
                )
            )
            print(f"VIOLATION property={self.pid} replay={path}  # {sig} ({len(vs)} cases)")
        self.write_evidence(len(new), {kid: c for kid, (k, c) in matched.items()})
        dt = time.time() - self.t0
        print(
            f"{self.pid} tier={self.tier} seed={self.seed} evaluations={self.evaluations} "
            f"distinct_nontrivial={len(self.keys)} outcomes={len(self.outcomes)} ood={self.ood} "
            f"states={self.states} transitions={self.transitions} violations={len(new)} "
            f"known={sum(c for _, c in matched.values())} exhaustive={self.exhaustive} wall={dt:.1f}s"
        )
        return 1 if new else 0

    def write_evidence(self, nviol: int, known_counts: dict):
        cov = {
            "evaluations": self.evaluations,
            "distinct_nontrivial": len(self.keys),
            "rule": self.rule,
            "samples": self.samples[:12] or [{"note": "no cases"}],
            "exhaustive": bool(self.exhaustive),
            "out_of_domain": self.ood,
            "out_of_domain_reasons": self.ood_reasons,
            "distinct_outcomes": len(self.outcomes),
            "bounds": jsonable(self.bounds),
            "parts": self.parts,
            "known_finding_cases": known_counts,
        }
        if self.level == "model_checking" or self.states:
            cov.update(
                states=self.states,
                transitions=self.transitions,
                traces_validated_against_impl=self.traces,
                max_depth=self.max_depth,
            )
        if self.watchdog_cases:
            cov["watchdog_killed_cases"] = self.watchdog_cases[:20]
        cov.update(jsonable(self.extra))
        ev = {
            "property_id": self.pid,
            "tier": self.tier,
            "seed": self.seed,
            "level": self.level,
            "coverage": cov,
            "assumptions": self.assumptions,
            "wall_s": round(time.time() - self.t0, 2),
            "violations": nviol,
        }
        EVIDENCE_DIR.mkdir(exist_ok=True)
        path = EVIDENCE_DIR / f"{self.pid}.json"
        try:
            import jsonschema

            jsonschema.validate(ev, json.loads(EVIDENCE_SCHEMA.read_text()))
        except ImportError:
            pass
        except FileNotFoundError:
            pass
        path.write_text(json.dumps(ev, indent=1))


# ---------------------------------------------------------------------- known findings
def load_known(pid: str) -> list:
    if not KNOWN_FINDINGS.exists():
        return []
    data = json.loads(KNOWN_FINDINGS.read_text())
    return [f for f in data.get("findings", []) if f["property"] == pid]


def _get(d, dotted):
    for p in dotted.split("."):
        if isinstance(d, dict) and p in d:
            d = d[p]
        elif isinstance(d, list) and p.isdigit() and int(p) < len(d):
            d = d[int(p)]
        else:
            return None
    return d


def match_known(known: list, v: dict):
    """A finding matches a violation when the signature is equal and every `match` predicate on the
    failing case / detail holds.  Predicates: {"path": value} equality, {"path": {"in": [...]}}"""
    for k in known:
        if k["signature"] != v["signature"]:
            continue
        good = True
        for path, want in k.get("match", {}).items():
            src = v["case"] if not path.startswith("detail.") else v
            got = _get(src, path)
            if isinstance(want, dict) and "in" in want:
                good &= got in want["in"]
            else:
                good &= got == want
        if good:
            return k
    return None


# ---------------------------------------------------------------------- misc helpers
def rng(seed: int, *salt):
    import numpy as np

    h = int(hashlib.sha1(repr((seed, salt)).encode()).hexdigest()[:8], 16)
    return np.random.default_rng(h)


def det_noise(shape, seed: int, *salt):
    """Deterministic 'generic' array in [-1, 1] (seed only changes the values, never the case set)."""
    return rng(seed, *salt).uniform(-1.0, 1.0, size=shape)


def env_seed() -> int:
    try:
        return int(os.environ.get("VERIF_SEED", "0"))
    except ValueError:
        return 0
