"""E5 in situ: every numba dispatcher reachable as a module attribute of the glotaran package is replaced, for the
duration of a real objective evaluation, by its Python source (`py_func`) run under the recording machinery of
vf/prange.py.  The arguments are the ones the library itself passes, so kernels need not be known to the harness by
name or signature: a kernel added to the library is explored as soon as a model reaches it.

For every outermost call of a dispatcher the access log of all parallel-region iterations (explicit `prange` loops of
functions compiled with parallel=True, including the kernels they call) is checked for conflicts: two accesses to one
array element, at least one a write, from different iterations of one region instance.  An empty conflict relation
means all interleavings of the iterations are equivalent.  A kernel whose Python source cannot run on the recording
proxies falls back to the compiled code for that call and is listed as not instrumented (never a violation)."""
from __future__ import annotations

import numpy as np

from vf import prange


def discover():
    """all dispatchers held as attributes of loaded glotaran modules (the plugin system has imported every builtin
    megacomplex; a kernel module added to the library is loaded by the megacomplex module that uses it)"""
    import sys

    import glotaran  # noqa: F401
    from numba.core.dispatcher import Dispatcher

    found: dict = {}
    for name, mod in sorted(sys.modules.items()):
        if not name.startswith("glotaran") or mod is None or ".test" in name:
            continue
        for attr, val in list(vars(mod).items()):
            if isinstance(val, Dispatcher):
                found.setdefault(id(val), (val, []))[1].append((mod, attr))
    return found


class InSitu:
    def __init__(self):
        self.reports: dict = {}
        self._saved: list = []

    def _report(self, name, disp):
        return self.reports.setdefault(name, {"parallel": bool(disp.targetoptions.get("parallel", False)), "outer_calls": 0,
                                              "regions": 0, "parallel_iterations": 0, "accesses": 0, "conflicts": [],
                                              "not_instrumented": []})  # fmt: skip

    def _wrapper(self, disp):
        inner = prange.wrap(disp)
        name = f"{disp.py_func.__module__}.{disp.py_func.__name__}"
        rep = self._report(name, disp)

        def call(*a, **k):
            if prange.CTX[0] is not None:  # called from an instrumented kernel: part of the same exploration
                return inner(*a, **k)
            ctx = prange.Ctx()
            prange.CTX[0] = ctx
            backup = [np.array(x, copy=True) if isinstance(x, np.ndarray) else None for x in a]
            args = [prange.Rec(f"arg{i}", x) if isinstance(x, np.ndarray) and x.dtype.kind == "f" and x.ndim >= 1 else x
                    for i, x in enumerate(a)]  # fmt: skip
            try:
                out = inner(*args, **k)
            except Exception as e:  # noqa: BLE001
                prange.CTX[0] = None
                for x, b in zip(a, backup):
                    if b is not None:
                        x[...] = b
                if len(rep["not_instrumented"]) < 3:
                    rep["not_instrumented"].append(repr(e)[:200])
                return disp(*a, **k)
            finally:
                prange.CTX[0] = None
            rep["outer_calls"] += 1
            rep["regions"] += ctx.regions
            rep["parallel_iterations"] += ctx.parallel_iterations
            rep["accesses"] += len(ctx.log)
            if ctx.regions:
                c = prange.conflicts(ctx.log)
                if c and len(rep["conflicts"]) < 3:
                    rep["conflicts"].append({"conflicts": c, "argument_shapes": [list(x.shape) if isinstance(x, np.ndarray) else None for x in a]})
            return out.data if isinstance(out, prange.Rec) else out

        call.__wrapped_dispatcher__ = disp
        return call

    def __enter__(self):
        import numba

        found = discover()
        self._saved.append((numba, "prange", numba.prange))
        real_prange = numba.prange
        import sys

        for modname, mod in list(sys.modules.items()):
            if modname.startswith("glotaran") and getattr(mod, "prange", None) is real_prange:
                self._saved.append((mod, "prange", real_prange))
                mod.prange = prange.rec_prange
        numba.prange = prange.rec_prange
        for disp, sites in found.values():
            w = self._wrapper(disp)
            for mod, attr in sites:
                self._saved.append((mod, attr, disp))
                setattr(mod, attr, w)
        return self

    def __exit__(self, *exc):
        for obj, attr, val in reversed(self._saved):
            setattr(obj, attr, val)
        self._saved.clear()
        prange.CTX[0] = None
        return False
