"""C09 -- CLP linking aligns global axes faithfully.

E1, exhaustive: every ordered tuple of 2 (thorough: 3) global axes drawn from all non-empty subsets (size <= 3,
thorough 2 for triples) of a 7-point grid x tolerances x methods x weights; oracle = reference alignment read
literally from the statement (vf/gen/schemes.reference_alignment, all tie resolutions accepted), compared with
every alignment table of the real DataProviderLinked, plus end-to-end optimize() runs compared with the
independent reference of C02/C03.
"""
from __future__ import annotations

import itertools

import numpy as np

from vf import core
from vf.core import V
from vf.gen import schemes as S

LEVEL = "exploration"

GRID = [0.0, 0.25, 1.0, 1.5, 2.0, 2.75, 3.0]
TOLS = [0.0, 0.2, 0.25, 0.5, 1.0, 1.5]
METHODS = ["nearest", "backward", "forward"]
LABELS = ["m", "c", "x", "a"]  # declaration order is not the alphabetical order


def all_alignments(axes, tol, method):
    """every outcome the statement allows (ties between equidistant targets may go either way).
    Returns list of outcomes, each either 'ambiguous' or (aligned_axis, mapping)."""
    outs = []

    def rec(k, aligned, mapping):
        if k == len(axes):
            outs.append((sorted(aligned), dict(mapping)))
            return
        label, axis = axes[k]
        if aligned is None:
            rec(k + 1, set(axis), {**mapping, label: list(axis)})
            return
        options = []
        for v in axis:
            cands = [a for a in aligned
                     if abs(a - v) <= tol and not (method == "forward" and a < v) and not (method == "backward" and a > v)]  # fmt: skip
            if cands:
                dmin = min(abs(a - v) for a in cands)
                options.append([a for a in cands if abs(a - v) == dmin])
            else:
                options.append([v])
        for pick in itertools.product(*options):
            if len(set(pick)) != len(pick):
                outs.append("ambiguous")
                continue
            rec(k + 1, aligned | set(pick), {**mapping, label: list(pick)})

    rec(0, None, {})
    return outs


def make_spec(case):
    n = len(case["axes"])
    # end to end: the first megacomplex is index dependent, the second is not (the stacked matrix of a group must be
    # rebuilt at every aligned point)
    mcs = {"m1": S.mc_model(["s1", "s2"], index_dependent=bool(case.get("indexdep"))), "m2": S.mc_model(["s2", "s3"])}
    ds = []
    for k in range(n):
        d = S.dataset(LABELS[k], case["axes"][k], n_model=[5, 6, 7, 8][k], megacomplexes=["m1"] if k % 2 == 0 else ["m2"])
        if case.get("dtypes"):
            d["axis_dtype"] = case["dtypes"][k]
        if case["weights"] == "all" or (case["weights"] == "first" and k == 0) or (case["weights"] == "last" and k == n - 1):
            d["weight"] = "dataset"
        ds.append(d)
    spec = S.base_spec(ds, mcs, tolerance=case["tol"], method=case["method"], seed=case.get("seed", 0))
    spec["groups"]["default"]["link_clp"] = True
    return spec


def case_provider(case):
    from glotaran.optimization.data_provider import AlignDatasetError
    from glotaran.optimization.data_provider import DataProviderLinked

    spec = make_spec(case)
    axes = [(d["label"], [float(v) for v in d["global_axis"]]) for d in spec["datasets"]]
    allowed = all_alignments(axes, float(case["tol"]), case["method"])
    scheme = S.build_scheme(spec)
    group = list(scheme.model.get_dataset_groups().values())[0]
    group.set_parameters(scheme.parameters)
    try:
        dp = DataProviderLinked(scheme, group)
        err = None
    except AlignDatasetError as e:
        dp, err = None, e
    merged = any(o != "ambiguous" and len(o[0]) < len({v for _, a in axes for v in a}) for o in allowed)
    key = [case["axes"], case["tol"], case["method"], case["weights"]] if merged or "ambiguous" in allowed else None
    if dp is None:
        if "ambiguous" in allowed:
            return core.ok(key=key, outcome="ambiguous")
        return core.ok(key=key, outcome="wrong-error", violations=[V("align-error-for-unambiguous-axes", allowed=allowed[:2])])
    got_axis = [float(v) for v in dp.aligned_global_axis]
    vs = []
    if any(b <= a for a, b in zip(got_axis, got_axis[1:])):
        vs.append(V("aligned-axis-not-strictly-increasing", got=got_axis))
    match = None
    for o in allowed:
        if o != "ambiguous" and o[0] == got_axis:
            match = o
            break
    if match is None:
        ok_outs = [o for o in allowed if o != "ambiguous"]
        if not ok_outs:
            return core.ok(key=key, outcome="missed-ambiguity",
                           violations=[V("ambiguous-alignment-not-refused", got=got_axis)])  # fmt: skip
        return core.ok(key=key, outcome="wrong-axis",
                       violations=[V("aligned-axis-differs-from-reference", got=got_axis, want=ok_outs[0][0], mapping=ok_outs[0][1])])  # fmt: skip
    aligned, mapping = match
    # several tie resolutions can give the same axis: accept the tables of any of them
    candidates = [o for o in allowed if o != "ambiguous" and o[0] == got_axis]
    data = {d["label"]: S.make_data(spec, d)["data"].transpose("time", "spectral").values for d in spec["datasets"]}
    weights = {d["label"]: (S.dataset_weight_array(spec, d) if d["weight"] else None) for d in spec["datasets"]}
    errors_per_candidate = []
    for aligned, mapping in candidates:
        e = []
        for i, x in enumerate(aligned):
            members = [(d["label"], j) for d in spec["datasets"] for j, v in enumerate(mapping[d["label"]]) if v == x]
            want_labels = [m[0] for m in members]
            glabel = dp.get_aligned_group_label(i)
            got_members = [str(l) for l in dp.group_definitions[glabel]]
            if got_members != want_labels:
                e.append(V("group-definition-differs", index=i, got=got_members, want=want_labels))
                continue
            got_idx = [int(v) for v in dp.get_aligned_dataset_indices(i)]
            if got_idx != [m[1] for m in members]:
                e.append(V("aligned-dataset-indices-differ", index=i, got=got_idx, want=[m[1] for m in members]))
            stack = []
            for lab, j in members:
                col = data[lab][:, j]
                if weights[lab] is not None:
                    col = col * weights[lab][:, j]
                stack.append(col)
            want_data = np.concatenate(stack)
            got_data = np.asarray(dp.get_aligned_data(i), dtype=float)
            if got_data.shape != want_data.shape or not np.array_equal(got_data, want_data):
                e.append(V("aligned-data-column-differs", index=i, x=x, members=members))
            w = dp.get_aligned_weight(i)
            if any(weights[lab] is not None for lab, _ in members):
                want_w = np.concatenate([weights[lab][:, j] if weights[lab] is not None else np.ones(data[lab].shape[0]) for lab, j in members])
                if w is None or not np.array_equal(np.asarray(w, dtype=float), want_w):
                    e.append(V("aligned-weight-differs", index=i, members=members))
            elif w is not None and not np.array_equal(np.asarray(w), np.ones(len(want_data))):
                e.append(V("aligned-weight-present-without-weights", index=i))
        errors_per_candidate.append(e)
    best = min(errors_per_candidate, key=len)
    vs += best
    # every data column enters exactly once
    total = sum(np.asarray(dp.get_aligned_data(i)).size for i in range(len(got_axis)))
    if total != sum(a.size for a in data.values()):
        vs.append(V("data-points-not-counted-exactly-once", got=int(total), want=int(sum(a.size for a in data.values()))))
    return core.ok(key=key, outcome=[len(got_axis), len(vs)], violations=vs)


def case_e2e(case):
    """optimize() on linked datasets: result clps/residuals equal the independent reference; clps shared iff aligned"""
    from vf.checks import c03

    spec = make_spec(dict(case, indexdep=True))
    axes = [(d["label"], [float(v) for v in d["global_axis"]]) for d in spec["datasets"]]
    allowed = all_alignments(axes, float(case["tol"]), case["method"])
    if "ambiguous" in allowed:
        return core.ood("ambiguous")
    if len({repr(o) for o in allowed}) > 1:
        return core.ood("tie")  # decided at provider level
    ref0 = S.reference(spec, 0)
    n_free = sum(1 for _, _, vary in S.parameter_table(spec) if vary)
    if ref0["penalty"].size - n_free - ref0["number_of_clps"] <= 0:
        return core.ood("no-degrees-of-freedom")
    scheme, result, _ = c03.run_optimize(spec)
    vals = {p.label: float(p.value) for p in result.optimized_parameters.all()}
    ref = S.reference(spec, vals=vals)
    tol = S.tolerance(ref, 2.0)
    vs = []
    mapping = ref["groups"]["default"]["mapping"]
    for d in spec["datasets"]:
        vs += c03.check_dataset(spec, d, result.data[d["label"]], ref["datasets"][d["label"]], tol, mapping[d["label"]])
    # shared label s2: equal clps <=> same aligned point
    clp = {}
    for d in spec["datasets"]:
        c = result.data[d["label"]]["clp"]
        for j, x in enumerate(d["global_axis"]):
            clp[(d["label"], j)] = (mapping[d["label"]][j], float(c.sel(clp_label="s2").values[j]))
    keys = sorted(clp)
    for a, b in itertools.combinations(keys, 2):
        if a[0] == b[0]:
            continue
        same = clp[a][0] == clp[b][0]
        eq = clp[a][1] == clp[b][1]
        if same != eq:
            vs.append(V("clp-sharing-differs-from-alignment", a=a, b=b, aligned_same=same, clp_equal=eq))
            break
    merged = len(ref["groups"]["default"]["aligned"]) < len({v for _, a in axes for v in a})
    return core.ok(key=[case["axes"], case["tol"], case["method"]] if merged else None, outcome=len(vs), violations=vs)


CASE_FUNCS = {"provider": case_provider, "e2e": case_e2e}


def subsets(max_size, grid=None):
    out = []
    for r in range(1, max_size + 1):
        out += [list(c) for c in itertools.combinations(grid or GRID, r)]
    return out


def run(run: core.Run):
    quick = run.tier == "quick"
    grid = GRID[:5] if quick else GRID
    ax = subsets(3, grid)
    run.bounds = {"grid": grid, "tolerances": TOLS, "methods": METHODS, "axis_max_points": 3,
                  "datasets": "all ordered pairs of axes with <= 3 points + all ordered triples of axes with <= 2 points"}  # fmt: skip
    cases = []
    for a, b in itertools.product(ax, ax):
        for tol in TOLS:
            for m in METHODS:
                cases.append({"axes": [a, b], "tol": tol, "method": m, "weights": "none", "seed": run.seed})
    # weights on some datasets only: all axis pairs of <= 2 points (quick), <= 3 points (thorough)
    axw = subsets(2 if quick else 3, grid)
    for a, b in itertools.product(axw, axw):
        for tol in (0.0, 0.5, 1.0):
            for w in ("first", "last", "all"):
                cases.append({"axes": [a, b], "tol": tol, "method": "nearest", "weights": w, "seed": run.seed})
    # three datasets: all ordered triples of axes with <= 2 points
    ax2 = subsets(2, grid)
    for a, b, c in itertools.product(ax2, ax2, ax2):
        for tol in (0.5, 1.0) if quick else TOLS:
            for m in METHODS:
                cases.append({"axes": [a, b, c], "tol": tol, "method": m, "weights": "none", "seed": run.seed})
    # acquisition order: every ordering of a 3-point axis (a dataset's own global axis need not be sorted)
    perm3 = [list(p) for a3 in (itertools.combinations(grid[:4] if quick else grid[:5], 3)) for p in itertools.permutations(a3)
             if list(p) != sorted(p)]  # fmt: skip
    for pa in perm3:
        for b in ax2:
            for tol in (0.25, 1.0):
                for m in METHODS:
                    cases.append({"axes": [pa, b], "tol": tol, "method": m, "weights": "none", "seed": run.seed})
                    cases.append({"axes": [b, pa], "tol": tol, "method": m, "weights": "last", "seed": run.seed})
    # coordinates stored as integers / single precision in one dataset and as doubles in the other (merged points
    # take the coordinate of their target: the aligned axis must not be narrowed back to a dataset's own type)
    int_grid = [0.0, 1.0, 2.0, 3.0]
    ints = [list(c) for r in (1, 2, 3) for c in itertools.combinations(int_grid, r)]
    for a in ints:
        for b in subsets(2, grid):
            for tol in (0.25, 0.5, 1.0):
                for m in METHODS:
                    for dt in (["int", None], [None, "int"], ["float32", None]):
                        cases.append({"axes": [a, b] if dt[0] else [b, a], "tol": tol, "method": m, "weights": "none", "seed": run.seed, "dtypes": dt})
    for pa in perm3:  # both datasets on the very same non-ascending axis
        for m in METHODS:
            cases.append({"axes": [pa, pa], "tol": 0.25, "method": m, "weights": "none", "seed": run.seed})
            cases.append({"axes": [pa, pa], "tol": 0.0, "method": m, "weights": "last", "seed": run.seed})
    # coordinates of tiny magnitude (SI units: metres, seconds): at tolerance 0 only identical coordinates are linked
    for a, b in itertools.product(ax2, ax2):
        for scale in (1e-9, 1e-12):
            cases.append({"axes": [[v * scale for v in a], [v * scale + (scale * 1e-3 if i == 0 else 0.0) for i, v in enumerate(b)]],
                          "tol": 0.0, "method": "nearest", "weights": "none", "seed": run.seed})  # fmt: skip
    run.bounds["axis_orders"] = "all orderings of every 3-point axis over the first %d grid points" % (4 if quick else 5)
    run.map("provider", cases, chunksize=64)
    # end to end
    axe = subsets(2, grid) if quick else subsets(3)
    e2e = []
    for a, b in itertools.product(axe, axe):
        for tol in (0.25, 1.0) if quick else TOLS:
            for m in METHODS:
                e2e.append({"axes": [a, b], "tol": tol, "method": m, "weights": "none", "seed": run.seed})
    if not quick:
        ax1 = subsets(2)
        for a, b, c in itertools.product(ax1, ax1, ax1):
            if len(a) + len(b) + len(c) <= 4:
                for m in METHODS:
                    e2e.append({"axes": [a, b, c], "tol": 0.5, "method": m, "weights": "last", "seed": run.seed})
    for pa in perm3 if not quick else [p for p in perm3 if set(p) == set(grid[:3])]:
        for b in subsets(2, grid[:4]):
            for tol in (0.25, 1.0):
                for m in METHODS if not quick else ["nearest"]:
                    e2e.append({"axes": [pa, b], "tol": tol, "method": m, "weights": "none", "seed": run.seed})
                    e2e.append({"axes": [b, pa], "tol": tol, "method": m, "weights": "none", "seed": run.seed})
    for pa in perm3[:4]:
        e2e.append({"axes": [pa, pa], "tol": 0.25, "method": "nearest", "weights": "none", "seed": run.seed})
    run.map("e2e", e2e)
    run.rule = (
        "exhaustive: all ordered tuples of global axes (non-empty subsets of a 7-point grid) x tolerances x methods "
        "(x weight placement); provider tables (aligned axis, group definitions, dataset indices, stacked data and "
        "weights, AlignDatasetError) against the reference alignment; end-to-end optimize() against the independent "
        "reference. distinct_nontrivial = distinct cases in which at least two points are merged or merging is ambiguous"
    )
    run.assumptions = ["ties between equidistant aligned targets may be resolved either way", "axes of <= 3 points"]
