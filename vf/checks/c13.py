"""C13 -- fit statistics are consistent with each other and with the reported data.

E1 over the scheme feature space x optimisation methods x max_nfev; every relation between the reported
statistics, the result datasets and a fresh re-evaluation of the objective is checked on every result.
"""
from __future__ import annotations

import math
import warnings

import numpy as np

from vf import core
from vf.core import V
from vf.gen import features as F
from vf.gen import schemes as S

LEVEL = "exploration"


def rel(a, b):
    return abs(a - b) / max(abs(a), abs(b), 1e-300)


def case_stats(case):
    from glotaran.optimization.optimize import optimize
    from glotaran.optimization.optimizer import Optimizer
    from glotaran.project import Scheme

    spec = F.make_spec(case["opts"], variant=0, seed=case.get("seed", 0))
    if spec is None:
        return core.ood("invalid-combination")
    try:
        ref0 = S.reference(spec, 0)
    except S.OutOfDomain as e:
        return core.ood(e.reason)
    n_free = sum(1 for _, _, vary in S.parameter_table(spec) if vary)
    if ref0["penalty"].size - n_free - ref0["number_of_clps"] <= 0:
        return core.ood("no-degrees-of-freedom")
    scheme = S.build_scheme(spec, optimization_method=case["method"], maximum_number_function_evaluations=case["nfev"])
    if case.get("nonneg"):
        for p in scheme.parameters.all():
            if p.label.startswith("rate."):
                p.non_negative = True
    with warnings.catch_warnings():
        warnings.simplefilter("ignore")
        try:
            res = optimize(scheme, verbose=False, raise_exception=True)
        except (ValueError, FloatingPointError, np.linalg.LinAlgError) as e:
            # unbounded methods can drive the harness model into overflow: no successful result to judge
            return core.ood("fit-raised-" + type(e).__name__)
    if not res.success:
        return core.ood("unsuccessful-fit")
    vals = {p.label: float(p.value) for p in res.optimized_parameters.all()}
    try:
        ref = S.reference(spec, vals=vals)
    except np.linalg.LinAlgError:
        return core.ood("fit-diverged-reference-not-evaluable")
    if not np.isfinite(ref["cond"]) or ref["cond"] > 1e8:
        return core.ood("ill-conditioned")
    vs = []
    n_pen = sum(len(g) for g in ref["additional_penalty"])
    n_points = sum(len(d["model_axis"]) * len(d["global_axis"]) for d in spec["datasets"])
    if res.number_of_residuals != n_points + n_pen:
        vs.append(V("number-of-residuals", got=int(res.number_of_residuals), want=n_points + n_pen, data_points=n_points, penalties=n_pen))
    if res.number_of_free_parameters != n_free or len(res.free_parameter_labels) != n_free:
        vs.append(V("number-of-free-parameters", got=int(res.number_of_free_parameters), want=n_free))
    if res.number_of_clps != ref["number_of_clps"]:
        vs.append(V("number-of-clps", got=int(res.number_of_clps), want=int(ref["number_of_clps"])))
    dof = res.number_of_residuals - res.number_of_free_parameters - res.number_of_clps
    if res.degrees_of_freedom != dof:
        vs.append(V("degrees-of-freedom", got=int(res.degrees_of_freedom), want=int(dof)))
    # chi square from the reported datasets and penalties
    chi = 0.0
    for d in spec["datasets"]:
        rd = res.data[d["label"]]
        wr = rd["weighted_residual"] if "weighted_residual" in rd else rd["residual"]
        chi += float(np.sum(np.asarray(wr.values, dtype=float) ** 2))
        size = wr.values.size
        rm = math.sqrt(float(np.sum(np.asarray(rd["residual"].values) ** 2)) / size)
        if rel(float(rd.attrs["root_mean_square_error"]), rm) > 1e-12:
            vs.append(V("dataset-rmse", dataset=d["label"], got=float(rd.attrs["root_mean_square_error"]), want=rm))
        wrm = math.sqrt(float(np.sum(np.asarray(wr.values) ** 2)) / size)
        if rel(float(rd.attrs["weighted_root_mean_square_error"]), wrm) > 1e-12:
            vs.append(V("dataset-weighted-rmse", dataset=d["label"], got=float(rd.attrs["weighted_root_mean_square_error"]), want=wrm))
    add = [float(x) for g in res.additional_penalty for x in g]
    if len(add) != n_pen:
        vs.append(V("additional-penalty-count", got=len(add), want=n_pen))
    chi += sum(x * x for x in add)
    tol = 1e-9
    if rel(float(res.chi_square), chi) > tol:
        vs.append(V("chi-square-not-sum-of-squared-weighted-residuals-and-penalties", got=float(res.chi_square), want=chi))
    if rel(float(res.cost), float(res.chi_square) / 2) > tol:
        vs.append(V("cost-not-half-chi-square", cost=float(res.cost), chi_square=float(res.chi_square)))
    # objective re-evaluated at the optimised parameters on a fresh optimiser, and the independent reference
    import dataclasses

    fresh = Optimizer(dataclasses.replace(scheme, parameters=res.optimized_parameters, add_svd=False),
                      verbose=False, raise_exception=True)  # fmt: skip
    lab, x, _, _ = res.optimized_parameters.get_label_value_and_bounds_arrays(exclude_non_vary=True)
    fresh._free_parameter_labels = lab
    pen = np.asarray(fresh.objective_function(x), dtype=float)
    if rel(float(res.cost), 0.5 * float(pen @ pen)) > tol:
        vs.append(V("cost-differs-from-objective-at-optimised-parameters", cost=float(res.cost), reevaluated=0.5 * float(pen @ pen)))
    want_cost = 0.5 * float(ref["penalty"] @ ref["penalty"])
    # the reference solves each linear problem by SVD / exhaustive support search; QR loses ~cond*eps, SciPy's
    # normal-equation NNLS ~cond^2*eps: near-collinear optima (cond > 1e6) are compared with a tolerance that grows with cond
    nnls_used = any(g.get("residual_function") == "non_negative_least_squares" for g in spec["groups"].values())
    cost_tol = 1e-7 * max(1.0, ref["cond"] / 1e5) * (max(1.0, ref["cond"] / 1e5) if nnls_used else 1.0)
    if rel(float(res.cost), want_cost) > cost_tol:
        vs.append(V("cost-differs-from-independent-reference", cost=float(res.cost), reference=want_cost))
    if dof > 0:
        if rel(float(res.reduced_chi_square), float(res.chi_square) / dof) > 1e-12:
            vs.append(V("reduced-chi-square", got=float(res.reduced_chi_square), want=float(res.chi_square) / dof))
        if rel(float(res.root_mean_square_error), math.sqrt(float(res.chi_square) / dof)) > 1e-12:
            vs.append(V("root-mean-square-error", got=float(res.root_mean_square_error)))
    # covariance: symmetric PSD pseudo-inverse of J^T J
    J = np.asarray(res.jacobian, dtype=float)
    C = np.asarray(res.covariance_matrix, dtype=float)
    if J.shape != (res.number_of_residuals, n_free):
        vs.append(V("jacobian-shape", got=list(J.shape), want=[int(res.number_of_residuals), n_free]))
    elif C.shape != (n_free, n_free):
        vs.append(V("covariance-shape", got=list(C.shape)))
    elif np.all(np.isfinite(J)):
        A = J.T @ J
        sv = np.linalg.svd(J, compute_uv=False)
        kept = sv[sv**2 > np.finfo(float).eps]
        condA = (kept.max() / kept.min()) ** 2 if kept.size else 1.0
        eps = np.finfo(float).eps
        t = 1e3 * eps * condA
        nC, nA = np.linalg.norm(C), np.linalg.norm(A)
        if np.abs(C - C.T).max() > 1e-12 * max(nC, 1e-300):
            vs.append(V("covariance-not-symmetric"))
        ev = np.linalg.eigvalsh((C + C.T) / 2)
        if ev.min() < -1e-10 * max(abs(ev).max(), 1e-300):
            vs.append(V("covariance-not-positive-semi-definite", min_eigenvalue=float(ev.min())))
        if kept.size == sv.size and condA < 1e10:  # full rank and well conditioned: C must be the inverse
            if np.linalg.norm(A @ C @ A - A) > max(t, 1e-9) * nA:
                vs.append(V("covariance-not-pseudo-inverse-of-JtJ/ACA", err=float(np.linalg.norm(A @ C @ A - A) / nA), cond=float(condA)))
            if np.linalg.norm(C @ A @ C - C) > max(t, 1e-9) * nC:
                vs.append(V("covariance-not-pseudo-inverse-of-JtJ/CAC", err=float(np.linalg.norm(C @ A @ C - C) / nC), cond=float(condA)))
        # (rank-deficient or ill-conditioned J: the pseudo-inverse identities are not numerically meaningful with the
        # documented absolute cut-off; symmetry and positive semi-definiteness are still required)
        rmse = float(res.root_mean_square_error)
        for j, L in enumerate(res.free_parameter_labels):
            p = res.optimized_parameters.get(L)
            want = rmse * math.sqrt(max(C[j, j], 0.0))
            if p.non_negative:  # mapped back from log space
                lv = math.log(p.value + (1e-10 if p.value == 1 else 0.0))
                want = p.value * (math.exp(want) - 1.0) if want < abs(lv) else abs(p.value)
            if rel(float(p.standard_error), want) > 1e-9 and not (want == 0 and float(p.standard_error) == 0):
                vs.append(V("standard-error-not-rmse-sqrt-diag", label=L, got=float(p.standard_error), want=want))
    key = [case["opts"], case["method"], case["nfev"], bool(case.get("nonneg"))]
    return core.ok(key=key, outcome=[int(res.number_of_clps), n_pen, res.success], violations=vs)


CASE_FUNCS = {"stats": case_stats}
WATCHDOG = {"stats": 20}  # a fit that never returns is not a "successful result" (see C15 known finding)


def run(run: core.Run):
    quick = run.tier == "quick"
    axes = ["nds", "axes", "link", "indexdep", "weights", "dscale", "multimc", "constraints", "relation", "penalty", "residual", "full", "groups"]
    cases = []
    for o in F.t_way(2 if quick else 3, axes):
        for method, nfev in (("TrustRegionReflection", 3), ("Dogbox", 1), ("Levenberg-Marquardt", 6)) if quick else (
            ("TrustRegionReflection", 1), ("TrustRegionReflection", 5), ("TrustRegionReflection", None),
            ("Dogbox", 5), ("Levenberg-Marquardt", 5), ("Levenberg-Marquardt", None)):  # fmt: skip
            cases.append({"opts": o, "method": method, "nfev": nfev, "seed": run.seed})
            if len(o) <= 1:
                cases.append({"opts": o, "method": method, "nfev": nfev, "seed": run.seed, "nonneg": True})
    run.map("stats", cases)
    run.bounds = {"t_way": 2 if quick else 3, "axes": axes, "methods": 3, "max_nfev": [1, 3, 6] if quick else [1, 5, None]}
    run.rule = (
        "all <= t-way assignments of the scheme features x methods x max_nfev, noisy data; every successful result "
        "is checked against: counted data points and penalties, reference count of reduced clps, chi-square from the "
        "result datasets and penalties, cost = chi2/2 = objective at the optimised parameters (fresh optimiser and "
        "independent reference), dof / reduced chi2 / RMSE formulae, per-dataset RMSEs, covariance symmetric PSD "
        "pseudo-inverse of J^T J, standard errors. distinct_nontrivial = distinct (scheme, method, nfev) with a successful fit"
    )
    run.assumptions = ["harness megacomplexes, tiny axes"]
