"""C15 -- failures during optimisation are contained and reported.

E3 (deviation-bounded fault enumeration): the default environment answers "no fault" at every model evaluation.
For every scheme x method x verbose x raise_exception the fault-free run is executed first to learn the number N
of model evaluations (calls of OptimizationGroup.calculate, including those create_result performs); then *every*
run with one deviation - an exception of each type, or a non-finite matrix, at evaluation k = 1..N - is executed
to completion (thorough: also all pairs k1 < k2).  Invalid schemes of every kind must be rejected up front.
"""
from __future__ import annotations

import io
import itertools
import sys
import warnings

import numpy as np

from vf import core
from vf.core import V
from vf.gen import features as F
from vf.gen import schemes as S

LEVEL = "fault_enumeration"

class VfModelError(Exception):
    """an exception class of a third-party megacomplex: derives from Exception directly"""


def _exc(name):
    if name == "EmptyMessage":  # a bare `raise SomeError` / `assert`: str(e) == ""
        return lambda msg: VfModelError()
    if name == "MultiLine":
        return lambda msg: ValueError(msg + "\nsecond line of the message: details")
    if name == "ModelError":
        from glotaran.model import ModelError  # noqa: PLC0415

        return lambda msg: _with_msg(ModelError.__new__(ModelError), msg)
    if name == "ParameterNotFoundException":
        from glotaran.parameter.parameters import ParameterNotFoundException  # noqa: PLC0415

        return lambda msg: _with_msg(ParameterNotFoundException.__new__(ParameterNotFoundException), msg)
    return EXC[name]


def _with_msg(e, msg):
    Exception.__init__(e, msg)
    return e


# quick uses the first two (an everyday builtin and a class deriving from Exception directly), thorough all
EXC = {"ValueError": ValueError, "VfModelError": VfModelError, "ZeroDivisionError": ZeroDivisionError,
       "RuntimeError": RuntimeError, "FloatingPointError": FloatingPointError, "KeyError": KeyError,
       "TypeError": TypeError, "IndexError": IndexError, "ModelError": None, "ParameterNotFoundException": None,
       "EmptyMessage": None, "MultiLine": None}  # fmt: skip
QUICK_EXC = ["ValueError", "VfModelError"]

SCHEMES = {
    "unlinked": {"link": False, "relation": "iv", "layout": "gm", "weights": "ds_all"},  # data stored as (global, model), weighted
    "linked": {"link": True, "dscale": "second", "penalty": "yes"},
    "nonneg": {"nds": 1},
    "two_groups": {"groups": "two", "nds": 3},
}


def build(case):
    spec = F.make_spec(SCHEMES[case["scheme"]], variant=0, seed=case.get("seed", 0))
    scheme = S.build_scheme(spec, optimization_method=case["method"], maximum_number_function_evaluations=case.get("nfev", 4))
    if case["scheme"] == "nonneg":
        rates = [p for p in scheme.parameters.all() if p.label.startswith("rate.")]
        for p in rates:
            p.non_negative = True
        # ... and the last rate is defined by an expression of the first (re-evaluated at every evaluation: the caller's
        # scheme must still hold the value it was given)
        rates[-1].expression = f"${rates[0].label} * 3.5"
        scheme.parameters.update_parameter_expression()
    return spec, scheme


class Plan:
    def __init__(self, faults):
        self.faults = faults  # {k: ["raise", name] | ["nan"]}
        self.n = 0
        self.ok_vectors = []
        self.raised = []
        self.raised_at = {}
        self.n_at_create_result = None


def run_with_faults(case, faults):
    """returns dict(outcome=..., result=..., exc=..., plan=..., stdout_restored, printed)"""
    from glotaran.optimization import optimization_group as og
    from glotaran.optimization.optimize import optimize

    spec, scheme = build(case)
    plan = Plan({int(k): v for k, v in faults.items()})
    orig = og.OptimizationGroup.calculate

    def patched(self, parameters):
        plan.n += 1
        f = plan.faults.get(plan.n)
        if f and f[0] == "raise":
            e = _exc(f[1])(f"injected-fault-{plan.n}")
            plan.raised.append(e)
            plan.raised_at[id(e)] = plan.n
            raise e
        if f and f[0] == "raise_mid":
            # the model raises in the middle of the evaluation: the first matrix of the group has been calculated already
            e = VfModelError(f"injected-fault-{plan.n}")
            calls = [0]

            def hook(mc, dm):
                calls[0] += 1
                if calls[0] == 2:
                    plan.raised.append(e)
                    plan.raised_at[id(e)] = plan.n
                    raise e

            S._FAULT_HOOK[0] = hook
            try:
                orig(self, parameters)
            finally:
                S._FAULT_HOOK[0] = None
            if calls[0] < 2:  # a group with a single matrix: the fault comes at the end of the evaluation instead
                plan.raised.append(e)
                plan.raised_at[id(e)] = plan.n
                raise e
            return
        if f and f[0] == "nan":
            S._POISON[0] = True
        try:
            orig(self, parameters)
        finally:
            S._POISON[0] = False

    from glotaran.optimization import optimizer as om

    orig_penalty = om.Optimizer.calculate_penalty

    def calculate_penalty(self):
        r = orig_penalty(self)  # raises when any group of this objective evaluation raises
        if plan.n_at_create_result is None:  # (a non-finite evaluation did not *raise*)
            # only evaluations made by the optimiser count as "evaluated without error"; the re-evaluations
            # create_result performs at the parameters it has already chosen must not vouch for themselves
            plan.ok_vectors.append(tuple(float(p.value) for p in self._parameters.all()))
        return r

    from vf.checks.c10 import diff_snapshots
    from vf.checks.c10 import snapshot_scheme

    orig_create = om.Optimizer.create_result

    def create_result(self):
        plan.n_at_create_result = plan.n
        return orig_create(self)

    before = snapshot_scheme(scheme)
    out = {"plan": plan, "scheme": scheme, "spec": spec}
    real_stdout = sys.stdout
    capture = io.StringIO()
    sys.stdout = capture
    og.OptimizationGroup.calculate = patched
    om.Optimizer.create_result = create_result
    om.Optimizer.calculate_penalty = calculate_penalty
    try:
        with warnings.catch_warnings(record=True) as w:
            warnings.simplefilter("always")
            try:
                out["result"] = optimize(scheme, verbose=case["verbose"], raise_exception=case["raise_exception"])
                out["exc"] = None
            except BaseException as e:  # noqa: BLE001
                out["result"] = None
                out["exc"] = e
        out["warnings"] = [str(x.message) for x in w]
    finally:
        og.OptimizationGroup.calculate = orig
        om.Optimizer.create_result = orig_create
        om.Optimizer.calculate_penalty = orig_penalty
        out["stdout_restored"] = sys.stdout is capture
        sys.stdout = real_stdout
        S._POISON[0] = False
    out["printed"] = capture.getvalue()
    out["scheme_changed"] = diff_snapshots(before, snapshot_scheme(scheme))
    return out


def judge(case, faults, out, n_optimizer_evaluations):
    from glotaran.optimization.optimizer import InitialParameterError

    vs = []
    plan = out["plan"]
    ks = sorted(int(k) for k in faults)
    kinds = {faults[k][0] if isinstance(k, int) else faults[str(k)][0] for k in faults}
    ctx = {"faults": faults, "evaluations_seen": plan.n}
    if not out["stdout_restored"]:
        vs.append(V("stdout-not-restored", **ctx))
    if out["scheme_changed"]:
        vs.append(V("callers-scheme-changed", changed=out["scheme_changed"], **ctx))
    exc, res = out["exc"], out["result"]
    injected_hit = [k for k in ks if k <= plan.n]
    if not injected_hit:
        # the fault point was never reached: must behave like the fault-free run
        if exc is not None or res is None or not res.success:
            vs.append(V("fault-free-run-failed", exc=repr(exc)[:200], **ctx))
        return vs
    only_raise = kinds <= {"raise", "raise_mid"}
    if case["raise_exception"] and only_raise:
        first = plan.raised[0] if plan.raised else None
        if exc is None:
            vs.append(V("exception-swallowed-with-raise_exception-true", **ctx))
        elif exc is not first:
            vs.append(V("different-exception-propagated-with-raise_exception-true", got=repr(exc)[:200], **ctx))
        return vs
    if exc is not None:
        if isinstance(exc, InitialParameterError):
            if plan.ok_vectors and only_raise:
                vs.append(V("InitialParameterError-although-an-evaluation-succeeded", successful=len(plan.ok_vectors), **ctx))
            return vs
        if case["raise_exception"]:
            return vs  # non-finite faults with raise_exception=True may surface as scipy/numpy errors
        # where was the evaluation that raised called from - in *this* run (a first fault may end the optimiser early)
        if any(exc is r for r in plan.raised) and plan.n_at_create_result is not None:
            in_cr = plan.raised_at.get(id(exc), 0) > plan.n_at_create_result
        else:
            in_cr = bool(plan.n_at_create_result is not None and "nan" in kinds)
        if any(exc is r for r in plan.raised):
            # the injected exception itself came out: the finding is identified by where the evaluation was called from
            sig = "injected-exception-escaped-with-raise_exception-false/" + ("in-create_result" if in_cr else "in-least_squares")
        else:
            sig = "exception-escaped-with-raise_exception-false/" + type(exc).__name__
        vs.append(V(sig, exc=repr(exc)[:200], exception_type=type(exc).__name__, fault_kinds=sorted(kinds),
                    has_nan="nan" in kinds, fault_in_create_result=in_cr, **ctx))  # fmt: skip
        return vs
    # a Result came back
    if only_raise:
        if res.success:
            vs.append(V("success-reported-although-an-evaluation-raised", **ctx))
        if not any(str(r) in str(res.termination_reason) for r in plan.raised):
            vs.append(V("termination-reason-does-not-carry-the-error", reason=str(res.termination_reason)[:200],
                        error=str(plan.raised[0])[:200] if plan.raised else None, **ctx))  # fmt: skip
        if not plan.ok_vectors:
            vs.append(V("result-returned-although-no-evaluation-succeeded", **ctx))
    got = tuple(float(p.value) for p in res.optimized_parameters.all())
    if not all(np.isfinite(got)):
        if only_raise:  # after a non-finite matrix SciPy itself may step to non-finite parameters
            vs.append(V("result-parameters-not-finite", **ctx))
    elif plan.ok_vectors and got not in plan.ok_vectors:
        near = min(max(abs(a - b) for a, b in zip(got, v)) for v in plan.ok_vectors)
        vs.append(V("result-parameters-were-never-evaluated-without-error", distance_to_nearest_evaluated=near, **ctx))
    # datasets consistent with those parameters: every array of every result dataset against the independent reference
    # evaluated at the reported parameter values (a failed evaluation may have left parts of the providers behind)
    if only_raise and all(np.isfinite(got)):
        try:
            from vf.checks import c03

            vals = {p.label: float(p.value) for p in res.optimized_parameters.all()}
            ref = S.reference(out["spec"], vals=vals)
            if np.isfinite(ref["cond"]) and ref["cond"] < 1e8:
                tol = S.tolerance(ref, 2.0)
                for d in out["spec"]["datasets"]:
                    ginfo = ref["groups"][d["group"]]
                    x_eff = ginfo["mapping"][d["label"]] if ginfo["linked"] else list(d["global_axis"])
                    for v in c03.check_dataset(out["spec"], d, res.data[d["label"]], ref["datasets"][d["label"]], tol, x_eff):
                        vs.append(dict(v, signature="result-dataset-not-from-the-reported-parameters/" + v["signature"], detail=dict(v.get("detail", {}), **ctx)))
                        break
        except (S.OutOfDomain, np.linalg.LinAlgError):
            pass
    try:
        from glotaran.optimization.optimizer import Optimizer
        from glotaran.project import Scheme

        sch = out["scheme"]
        import dataclasses

        fresh = Optimizer(dataclasses.replace(sch, parameters=res.optimized_parameters, add_svd=False),
                          verbose=False, raise_exception=True)  # fmt: skip
        lab, x, _, _ = res.optimized_parameters.get_label_value_and_bounds_arrays(exclude_non_vary=True)
        fresh._free_parameter_labels = lab
        pen = np.asarray(fresh.objective_function(x))
        parts = []
        for d in out["spec"]["datasets"]:
            rd = res.data[d["label"]]
            wr = rd["weighted_residual"] if "weighted_residual" in rd else rd["residual"]
            parts.append(float(np.sum(np.asarray(wr.values) ** 2)))
            if "nan" in kinds and not np.all(np.isfinite(rd["residual"].values)):
                continue  # a non-finite matrix in the final evaluation shows up as non-finite result arrays
            if not np.allclose(rd["data"].values, (rd["fitted_data"] + rd["residual"]).values, rtol=0, atol=1e-12):
                vs.append(V("result-dataset-data-not-fitted-plus-residual", dataset=d["label"], **ctx))
        n_pen = sum(len(g) for g in res.additional_penalty)
        want = float(np.sum(pen[: pen.size - n_pen] ** 2)) if n_pen else float(np.sum(pen**2))
        if np.all(np.isfinite(pen)) and abs(sum(parts) - want) > 1e-9 * max(1.0, want):
            vs.append(V("result-datasets-do-not-belong-to-the-reported-parameters", got=sum(parts), want=want, **ctx))
    except Exception as e:  # noqa: BLE001
        vs.append(V("result-cannot-be-re-evaluated", exc=repr(e)[:200], **ctx))
    return vs


def run_and_judge(case, dev, N, watchdog_s=None):
    """one faulted run + verdict.  Runs with a non-finite matrix are executed in a forked child under a watchdog:
    numpy/LAPACK can spin forever on a non-finite Jacobian and such a hang cannot be interrupted in-process."""
    import os
    import pickle
    import select
    import signal

    def work():
        out = run_with_faults(case, dev)
        v = judge(case, dev, out, N)
        oc = ("exc:" + type(out["exc"]).__name__) if out["exc"] is not None else f"result:{out['result'].success}"
        return v, oc

    if not any(f[0] == "nan" for f in dev.values()):
        return work()
    r, w = os.pipe()
    pid = os.fork()
    if pid == 0:
        try:
            os.close(r)
            data = pickle.dumps(work())
        except BaseException as e:  # noqa: BLE001
            data = pickle.dumps(([V("harness-child-failed", exc=repr(e)[:300])], "child-error"))
        with os.fdopen(w, "wb") as f:
            f.write(data)
        os._exit(0)
    os.close(w)
    chunks = []
    deadline = watchdog_s or WATCHDOG_S
    import time

    t0 = time.time()
    hung = False
    with os.fdopen(r, "rb") as f:
        while True:
            left = deadline - (time.time() - t0)
            if left <= 0:
                hung = True
                break
            ready, _, _ = select.select([f], [], [], left)
            if not ready:
                hung = True
                break
            b = f.read(65536)
            if not b:
                break
            chunks.append(b)
    if hung:
        os.kill(pid, signal.SIGKILL)
    os.waitpid(pid, 0)
    if hung:
        return [V("optimize-hangs/non-finite-matrix", faults=dev, watchdog_s=deadline)], "hang"
    return pickle.loads(b"".join(chunks))


WATCHDOG_S = 8.0


def case_faults(case):
    """all single (thorough: pairs of) deviations for one configuration"""
    import time as _time

    t0 = _time.time()
    base = run_with_faults(case, {})
    t_base = _time.time() - t0
    # the watchdog scales with the measured duration of the fault-free run (a loaded machine must not turn a slow run into a "hang")
    watchdog = max(WATCHDOG_S, 60.0 * t_base)
    if base["exc"] is not None or base["result"] is None:
        return core.ok(key=None, outcome="baseline-failed", violations=[V("fault-free-run-failed", exc=repr(base["exc"])[:300])])
    N = base["plan"].n
    n_opt = base["plan"].n_at_create_result
    vs = []
    lm = case["method"] == "Levenberg-Marquardt"  # scipy's MINPACK wrapper prints no progress table
    if case["verbose"] and not lm and "Iteration" not in base["printed"]:
        vs.append(V("verbose-run-printed-nothing"))
    if case["verbose"] and not lm and base["result"].optimization_history is not None and len(base["result"].optimization_history.data) == 0:
        vs.append(V("tee-buffer-empty-although-progress-was-printed"))
    if not case["verbose"] and base["printed"].strip():
        vs.append(V("silent-run-printed", printed=base["printed"][:100]))
    deviations = []
    kinds = [["raise", n] for n in (EXC if case.get("all_exc") else QUICK_EXC)] + [["nan"]]
    for k in range(1, N + 1):
        for kind in kinds:
            deviations.append({str(k): kind})
        if case.get("all_exc") or k <= 4:  # a fault in the middle of an evaluation; messages that are empty or span lines
            deviations.append({str(k): ["raise_mid"]})
            if not case.get("all_exc"):
                deviations.append({str(k): ["raise", "EmptyMessage"]})
                deviations.append({str(k): ["raise", "MultiLine"]})
    if case.get("pairs"):
        for k1, k2 in itertools.combinations(range(1, N + 1), 2):
            deviations.append({str(k1): ["raise", "ValueError"], str(k2): ["raise", "RuntimeError"]})
            deviations.append({str(k1): ["nan"], str(k2): ["raise", "ValueError"]})
    outcomes = set()
    runs = 0
    for dev in deviations:
        v, oc = run_and_judge(case, dev, n_opt, watchdog)
        runs += 1
        outcomes.add(oc)
        for x in v:
            c = {k: case[k] for k in ("scheme", "method", "verbose", "raise_exception", "nfev", "seed") if k in case}
            vs.append(dict(x, func="single", case=dict(c, faults=dev)))
    cfg = [case["scheme"], case["method"], case["verbose"], case["raise_exception"]]
    return core.ok(key=cfg, outcome=sorted(outcomes), violations=vs, states=runs + 1, transitions=runs,
                   fault_points=N, runs=runs, payload={"N": N, "runs": runs, "outcomes": sorted(outcomes)})  # fmt: skip


def case_single(case):
    base = run_with_faults(case, {})
    vs, oc = run_and_judge(case, case["faults"], base["plan"].n_at_create_result)
    return core.ok(key=case["faults"], outcome=oc, violations=vs)


def case_invalid(case):
    """schemes that cannot be optimised are rejected with the documented error before anything is evaluated"""
    from glotaran.optimization import optimization_group as og
    from glotaran.optimization.estimation_provider import UnsupportedResidualFunctionError
    from glotaran.optimization.optimize import optimize
    from glotaran.optimization.optimizer import MissingDatasetsError
    from glotaran.optimization.optimizer import ParameterNotInitializedError
    from glotaran.optimization.optimizer import UnsupportedMethodError
    from glotaran.parameter import Parameters
    from glotaran.parameter.parameters import ParameterNotFoundException
    from glotaran.project import Scheme

    spec = F.make_spec(SCHEMES[case["scheme"]], variant=0)
    base = S.build_scheme(spec)
    kw = dict(model=base.model, parameters=base.parameters, data=dict(base.data), maximum_number_function_evaluations=2, add_svd=False)
    kind = case["kind"]
    want = None
    if kind == "missing_dataset":
        kw["data"].pop(spec["datasets"][-1]["label"])
        want = MissingDatasetsError
    elif kind == "no_data":
        kw["data"] = {}
        want = MissingDatasetsError
    elif kind == "unknown_method":
        kw["optimization_method"] = "NoSuchMethod"
        want = UnsupportedMethodError
    elif kind == "unknown_residual_function":
        md = S.build_model_dict(spec)
        md["dataset_groups"]["default"]["residual_function"] = "no_such_function"
        kw["model"] = S.VfModel(**md)
        want = UnsupportedResidualFunctionError
    elif kind == "parameter_missing":
        ps = {p.label: p.copy() for p in base.parameters.all()}
        ps.pop("rate.m1.1")
        kw["parameters"] = Parameters(ps)
        want = (ParameterNotFoundException, ValueError)
    elif kind == "parameters_none":
        kw["parameters"] = None
        want = (ParameterNotInitializedError, ValueError)  # Scheme itself already refuses parameters=None
    calls = [0]
    orig = og.OptimizationGroup.calculate

    def counting(self, parameters):
        calls[0] += 1
        return orig(self, parameters)

    vs = []
    real_stdout = sys.stdout
    og.OptimizationGroup.calculate = counting
    try:
        for raise_exception in (False, True):
            try:
                with warnings.catch_warnings():
                    warnings.simplefilter("ignore")
                    scheme = Scheme(**kw)
                    optimize(scheme, verbose=False, raise_exception=raise_exception)
                vs.append(V("invalid-scheme-accepted", kind=kind, raise_exception=raise_exception))
            except Exception as e:  # noqa: BLE001
                if not isinstance(e, want):
                    vs.append(V("invalid-scheme-rejected-with-undocumented-error", kind=kind, got=type(e).__name__, message=str(e)[:200]))
            if calls[0]:
                vs.append(V("invalid-scheme-evaluated-before-rejection", kind=kind, evaluations=calls[0]))
            if sys.stdout is not real_stdout:
                vs.append(V("stdout-not-restored-after-rejection", kind=kind))
                sys.stdout = real_stdout
    finally:
        og.OptimizationGroup.calculate = orig
    return core.ok(key=[case["scheme"], kind], outcome=len(vs), violations=vs, states=1, transitions=1)


CASE_FUNCS = {"faults": case_faults, "single": case_single, "invalid": case_invalid}


def run(run: core.Run):
    quick = run.tier == "quick"
    cases = []
    schemes = ["unlinked", "linked", "nonneg"] if quick else list(SCHEMES)
    for sch in schemes:
        for method in ("TrustRegionReflection", "Dogbox", "Levenberg-Marquardt"):
            for verbose, rexc in ((False, False), (True, False), (False, True)) if quick else ((False, False), (True, False), (False, True), (True, True)):
                if True:
                    cases.append({"scheme": sch, "method": method, "verbose": verbose, "raise_exception": rexc,
                                  "nfev": 3 if quick else 5, "seed": run.seed, "all_exc": not quick,
                                  "pairs": (not quick) and verbose is False})  # fmt: skip
    run.map("faults", cases, chunksize=1)
    inv = [{"scheme": s, "kind": k} for s in ("unlinked", "linked", "two_groups")
           for k in ("missing_dataset", "no_data", "unknown_method", "unknown_residual_function", "parameter_missing", "parameters_none")]  # fmt: skip
    run.map("invalid", inv)
    pts = [p["N"] for _, p in run.payloads.get("faults", [])]
    runs = sum(p["runs"] for _, p in run.payloads.get("faults", []))
    run.extra.update({"fault_points_per_configuration": {"min": min(pts or [0]), "max": max(pts or [0])}, "faulted_runs": runs,
                      "deviation_bound": 1 if quick else 2})  # fmt: skip
    run.evaluations += runs
    run.bounds = {"schemes": schemes, "methods": 3, "verbose": 2, "raise_exception": 2, "max_nfev": 3 if quick else 5,
                  "fault_kinds": ["exception types", "non-finite matrix"], "deviations": "all k" if quick else "all k and all pairs k1<k2"}  # fmt: skip
    run.rule = (
        "for every configuration the fault-free run fixes the number N of model evaluations; every run with one "
        "deviation (each exception type / non-finite matrix at evaluation k, k=1..N incl. the evaluations of "
        "create_result) is executed; thorough adds all pairs. Oracle per run: containment, termination reason, "
        "parameters from an error-free evaluation, datasets belonging to them, same exception object when "
        "raise_exception, stdout identity, caller's scheme snapshot. distinct_nontrivial = distinct configurations"
    )
    run.assumptions = ["faults are injected at OptimizationGroup.calculate (one call per group and evaluation)"]
