"""C12 -- expression parameters always equal their expression.

Space: every labelled DAG of references over n parameters declared in the fixed order p1..pn (edges may
point forwards or backwards in declaration order, so every (dependency graph, declaration order) pair is
covered up to renaming), three expression forms, two label styles, five construction routes; and for each
graph an explicit-state BFS over update histories (set values / update / copy / export arrays) on the real
`Parameters` object with the complete parameter state as digest.
Oracle: the same expressions evaluated by plain Python in topological order (bit-equal).
"""
from __future__ import annotations

import itertools
import math
import os
import tempfile

import numpy as np

from vf import core
from vf.core import V
from vf.explore import bfs

LEVEL = "model_checking"


# --------------------------------------------------------------------------- all labelled DAGs
def all_dags(nodes):
    """Yield every DAG on `nodes` exactly once as a dict node -> tuple(sorted referenced nodes).

    Bijection used: S = set of all sinks (nodes referencing nothing), G' = G - S is a DAG on the rest, every
    sink of G' must reference at least one node of S, all other nodes reference any subset of S."""
    nodes = tuple(nodes)
    if not nodes:
        yield {}
        return
    n = len(nodes)
    for mask in range(1, 1 << n):
        S = tuple(nodes[i] for i in range(n) if mask >> i & 1)
        rest = tuple(nodes[i] for i in range(n) if not mask >> i & 1)
        subsets = [tuple(c) for r in range(len(S) + 1) for c in itertools.combinations(S, r)]
        for sub in all_dags(rest):
            choices = []
            for u in rest:
                choices.append(subsets[1:] if not sub[u] else subsets)
            for pick in itertools.product(*choices):
                g = {s: () for s in S}
                for u, extra in zip(rest, pick):
                    g[u] = tuple(sorted(sub[u] + extra))
                yield g


def graph_key(g, n):
    return [list(g[i]) for i in range(n)]


# --------------------------------------------------------------------------- labels, expressions, reference
def labels_for(style, n):
    if style == "flat":
        return [f"p{i+1}" for i in range(n)]
    base = ["g.1", "g.10", "h.a", "h.a1", "g.2", "k.m.z"]  # '$g.1' must not swallow / be swallowed by '$g.10'
    return base[:n]


def node_form(form, node):
    """'alt' mixes forms inside one parameter set: odd nodes sum, even nodes idx (so that one expression can be
    evaluated successfully before another one of the same update fails)"""
    if form == "alt":
        return "sum" if node % 2 == 1 else "idx"
    return form


def expression(form, refs, labels):
    r = [f"${labels[j]}" for j in refs]
    if form == "sum":
        return " + ".join(r) + " + 0.5"
    if form == "prod":
        return "*".join(r) + "*1.25"
    if form == "mix":
        return f"sqrt({r[0]})" + "".join(f" + {x} * 2" for x in r[1:])
    if form == "idx":  # fails (IndexError inside asteval -> non numeric -> ValueError) where the first referenced value is >= 5
        return f"(0.5, 1.5, 2.5, 3.5, 4.5)[int({r[0]})]" + "".join(f" + {x}" for x in r[1:])
    raise AssertionError(form)


def ref_eval(form, vals):
    if form == "sum":
        acc = vals[0]
        for v in vals[1:]:
            acc = acc + v
        return acc + 0.5
    if form == "prod":
        acc = vals[0]
        for v in vals[1:]:
            acc = acc * v
        return acc * 1.25
    if form == "idx":
        acc = (0.5, 1.5, 2.5, 3.5, 4.5)[int(vals[0])]
        for v in vals[1:]:
            acc = acc + v
        return acc
    acc = math.sqrt(vals[0])
    for v in vals[1:]:
        acc = acc + v * 2
    return acc


def topo(graph, n):
    order, done = [], set()

    def visit(u):
        if u in done:
            return
        for v in graph[u]:
            visit(v)
        done.add(u)
        order.append(u)

    for u in range(n):
        visit(u)
    return order


def reference_values(graph, n, form, leaf_values):
    vals = dict(leaf_values)
    for u in topo(graph, n):
        if graph[u]:
            vals[u] = ref_eval(node_form(form, u), [vals[j] for j in graph[u]])
    return vals


def leaf_initial(i):
    return 0.75 + 0.5 * i  # positive (sqrt), distinct, exactly representable


def nonneg_leaf(graph, n, variant):
    """index of the leaf made non-negative (optimised as a logarithm) in this variant, or None"""
    leaves = [i for i in range(n) if not graph[i]]
    if variant == "nonneg" and leaves:
        return leaves[-1]
    return None


def set_vector(k, free):
    """optimiser-space vector number k over the free leaves"""
    return [0.11 + 0.37 * (k + 1) * (pos + 1) for pos, _ in enumerate(free)]


# --------------------------------------------------------------------------- construction routes
def build_parameters(case, route, tmpdir=None):
    from glotaran.parameter import Parameter
    from glotaran.parameter import Parameters

    n, form, style = case["n"], case["form"], case["style"]
    graph = {i: tuple(case["graph"][i]) for i in range(n)}
    labels = labels_for(style, n)
    nn = nonneg_leaf(graph, n, case.get("variant", "plain"))
    specs = []
    for i in range(n):
        if graph[i]:
            specs.append({"label": labels[i], "expression": expression(node_form(form, i), graph[i], labels)})
        else:
            s = {"label": labels[i], "value": leaf_initial(i)}
            if i == nn:
                s["non_negative"] = True
            specs.append(s)
    if route == "programmatic":
        return Parameters({s["label"]: Parameter(**s) for s in specs})
    if route == "dict_list":
        return Parameters.from_parameter_dict_list(specs)

    def as_item(s, short):
        lab = s["label"].split(".")[-1] if short else s["label"]
        if "expression" in s:
            return [lab, {"expr": s["expression"]}]
        opts = {"non-negative": True} if s.get("non_negative") else {}
        return [lab, float(s["value"])] + ([opts] if opts else [])

    def nested():
        d: dict = {}
        for s in specs:
            path = s["label"].split(".")
            node = d
            for p in path[:-2]:
                node = node.setdefault(p, {})
            node.setdefault(path[-2], []).append(as_item(s, True))
        return d

    if route == "from_list":
        assert style == "flat"
        return Parameters.from_list([as_item(s, False) for s in specs])
    if route == "from_dict":
        assert style == "nested"
        return Parameters.from_dict(nested())
    if route == "yml_str":
        import yaml

        from glotaran.io import load_parameters

        spec = [as_item(s, False) for s in specs] if style == "flat" else nested()
        return load_parameters(yaml.safe_dump(spec), format_name="yml_str")
    if route in ("csv", "tsv"):
        from glotaran.io import load_parameters
        from glotaran.io import save_parameters

        p = Parameters({s["label"]: Parameter(**s) for s in specs})
        f = os.path.join(tmpdir, f"p.{route}")
        save_parameters(p, f, allow_overwrite=True)
        # the table was edited by hand afterwards: the value cells of the expression rows are out of date (a loaded
        # set has every expression parameter at the value of its expression, whatever the file stored for it)
        import pandas as pd

        sep = "," if route == "csv" else "\t"
        df = pd.read_csv(f, sep=sep, dtype=str, keep_default_na=False)
        if "expression" in df.columns:
            stale = df["expression"].astype(str).str.strip().ne("") & df["expression"].astype(str).ne("None")
            df.loc[stale, "value"] = "987.25"
            df.to_csv(f, sep=sep, index=False)
        return load_parameters(f)
    raise AssertionError(route)


# --------------------------------------------------------------------------- invariant
def state_of(params):
    out = []
    for p in params.all():
        d = p.as_dict()
        out.append([d["label"], float(d["value"]).hex(), d["expression"], d["vary"], d["non_negative"],
                    float(d["minimum"]).hex(), float(d["maximum"]).hex()])  # fmt: skip
    return out


def same(a, b):
    return a == b or (isinstance(a, float) and isinstance(b, float) and math.isnan(a) and math.isnan(b))


def invariant(params, case, leaf_values, where):
    n, form, style = case["n"], case["form"], case["style"]
    graph = {i: tuple(case["graph"][i]) for i in range(n)}
    labels = labels_for(style, n)
    want = reference_values(graph, n, form, leaf_values)
    vs = []
    for i in range(n):
        got = float(params.get(labels[i]).value)
        if not same(got, float(want[i])):
            kind = "expression" if graph[i] else "leaf"
            vs.append(V(f"{kind}-parameter-value-differs-from-reference", where=where, label=labels[i],
                        got=got, want=want[i], expression=params.get(labels[i]).expression))  # fmt: skip
            break
    for i in range(n):
        p = params.get(labels[i])
        if graph[i] and p.vary:
            vs.append(V("expression-parameter-varies", label=labels[i], where=where))
    before = state_of(params)
    params.update_parameter_expression()
    if state_of(params) != before:
        vs.append(V("update-not-idempotent", where=where))
    return vs


def free_leaves(case):
    n = case["n"]
    return [i for i in range(n) if not case["graph"][i]]


# --------------------------------------------------------------------------- history replay (E2 transition)
EVENTS = [["set", 0], ["set", 1], ["set", 2], ["update"], ["copy"], ["get", False], ["get", True], ["hist"], ["set_bad"]]
# "edit": a value is assigned directly on a Parameter object; the expressions catch up at the next export / update
EVENTS_WITH_EDIT = EVENTS + [["edit"]]


def replay_history(case, history):
    n, style = case["n"], case["style"]
    graph = {i: tuple(case["graph"][i]) for i in range(n)}
    labels = labels_for(style, n)
    nn = nonneg_leaf(graph, n, case.get("variant", "plain"))
    from glotaran.parameter import ParameterHistory

    params = build_parameters(case, "programmatic")
    leaf = {i: leaf_initial(i) for i in free_leaves(case)}
    free = free_leaves(case)
    vs = invariant(params, case, leaf, "construction") if not history else []
    recorded = ParameterHistory()
    recorded.append(params)  # the state every "hist" event restores
    leaf0 = dict(leaf)
    poisoned = False  # an update failed: the intermediate state is unspecified until the next complete update
    stale = False  # a value was edited directly: expression values are due at the next re-evaluating operation

    def ref_ok(lf):
        try:
            reference_values(graph, n, case["form"], lf)
            return True
        except IndexError:
            return False

    def updating(op, new_leaf, what):
        """run an updating operation; returns the leaf values that now apply"""
        nonlocal poisoned, stale
        expect_ok = ref_ok(new_leaf)
        try:
            op()
            raised = False
        except ValueError:
            raised = True
        if raised == expect_ok:
            vs.append(V("update-failure-differs-from-reference", what=what, raised=raised, reference_evaluates=expect_ok))
        poisoned = raised or not expect_ok  # either way no judgeable state until the next complete update
        stale = False
        return new_leaf

    for step, ev in enumerate(history):
        last = step == len(history) - 1
        if ev[0] in ("set", "set_bad"):
            vec = set_vector(ev[1], free) if ev[0] == "set" else [7.5 if i != nn else float(np.log(7.5)) for i in free]
            new_leaf = dict(leaf)
            for i, v in zip(free, vec):
                new_leaf[i] = float(np.exp(v)) if i == nn else v
            leaf = updating(lambda: params.set_from_label_and_value_arrays([labels[i] for i in free], np.asarray(vec)), new_leaf, ev)
        elif ev[0] == "update":
            leaf = updating(params.update_parameter_expression, leaf, ev)
        elif ev[0] == "hist":
            leaf = updating(lambda: params.set_from_history(recorded, 0), dict(leaf0), ev)
        elif poisoned:
            continue  # copy / export of a set whose last update failed is not judged
        elif ev[0] == "edit":
            i = [k for k in free if k != nn][:1]
            if not i:
                continue
            new_leaf = dict(leaf)
            new_leaf[i[0]] = 3.25 if leaf[i[0]] != 3.25 else 4.5
            if not ref_ok(new_leaf):
                continue
            params.get(labels[i[0]]).value = new_leaf[i[0]]
            leaf, stale = new_leaf, True
            continue
        elif stale and ev[0] == "copy":
            continue
        elif ev[0] == "copy":
            orig = params
            before = state_of(orig)
            cp = orig.copy()
            if last:
                if state_of(cp) != before:
                    vs.append(V("copy-differs-from-original", event=ev))
                # independence: moving the copy must not move the original and vice versa
                vec = set_vector(1, free)
                cp.set_from_label_and_value_arrays([labels[i] for i in free], np.asarray(vec))
                if state_of(orig) != before:
                    vs.append(V("copy-shares-state-with-original"))
                cp = orig.copy()
                if any(a is b for a, b in zip(cp.all(), orig.all())):
                    vs.append(V("copy-shares-parameter-objects"))
                # ... and the original keeps working while copies of it exist
                vec2 = set_vector(2, free)
                orig.set_from_label_and_value_arrays([labels[i] for i in free], np.asarray(vec2))
                leaf_o = dict(leaf)
                for i, v in zip(free, vec2):
                    leaf_o[i] = float(np.exp(v)) if i == nn else v
                vs += [dict(v, signature=v["signature"] + "/original-after-copy") for v in invariant(orig, case, leaf_o, "original updated after copy()")]
                cp = orig.copy()
                leaf = leaf_o
            params = cp
        elif ev[0] == "get":
            lab, val, lo, hi = params.get_label_value_and_bounds_arrays(exclude_non_vary=ev[1])
            stale = False  # exporting re-evaluates (whichever selection is exported)
            if last:
                want = reference_values(graph, n, case["form"], leaf)
                exp_labels = [labels[i] for i in range(n) if not ev[1] or not graph[i]]
                if list(lab) != exp_labels:
                    vs.append(V("exported-labels-wrong", got=list(lab), want=exp_labels, exclude_non_vary=ev[1]))
                else:
                    for L, v in zip(lab, val):
                        i = labels.index(L)
                        w = want[i]
                        if i == nn:
                            w = float(np.log(w + 1e-10 if w == 1 else w))
                        if not same(float(v), float(w)):
                            vs.append(V("exported-value-differs-from-reference", label=L, got=float(v), want=w))
                            break
        if last and not poisoned and not stale:
            vs += invariant(params, case, leaf, f"after {ev}")
    # The digest must cover hidden state too, otherwise histories are merged that have different futures:
    # (a) all parameter fields, (b) whether the object was produced by copy() (a copy may share state with its
    # source that no field shows), (c) which object the expression interpreter is bound to.
    ev = getattr(params, "_evaluator", None)
    bound = getattr(ev, "symtable", {}).get("parameters") is params if ev is not None else None
    dg = core.digest([state_of(params), any(e[0] == "copy" for e in history), bound, poisoned, stale])
    return dg, vs, {"outcome": [float(params.get(l).value) for l in labels]}


def case_graph_histories(case):
    """BFS over update histories on one graph."""
    depth = case["depth"]
    n0 = case["n"]
    try:
        reference_values({i: tuple(case["graph"][i]) for i in range(n0)}, n0, case["form"], {i: leaf_initial(i) for i in free_leaves(case)})
    except IndexError:
        return core.ood("initial-values-outside-the-domain-of-an-expression")
    r = bfs(lambda h, info: EVENTS_WITH_EDIT if case.get("edit") else EVENTS, lambda h: replay_history(case, h), depth)
    vs = []
    for v in r["violations"]:
        h = v.pop("history")
        c = {k: case[k] for k in ("n", "graph", "form", "style", "variant")}
        vs.append(dict(v, func="history", case=dict(c, history=h)))
    backward = any(j > i for i in range(case["n"]) for j in case["graph"][i])
    chained = any(case["graph"][j] for i in range(case["n"]) for j in case["graph"][i])
    key = [case["n"], case["graph"], case["form"], case["style"], case["variant"]] if (backward or chained) else None
    return core.ok(key=key, outcome={"states": r["states"], "backward": backward, "chained": chained},
                   violations=vs, states=r["states"], transitions=r["transitions"], traces=r["transitions"],
                   max_depth=r["max_depth"])  # fmt: skip


def case_history(case):
    dg, vs, info = replay_history(case, case["history"])
    return core.ok(key=dg, outcome=info["outcome"], violations=vs)


def case_construct(case):
    """construction by every route + one value update, no BFS (used for the big graph counts)."""
    n = case["n"]
    vs = []
    leaf = {i: leaf_initial(i) for i in free_leaves(case)}
    with tempfile.TemporaryDirectory(prefix="vf-c12-") as d:
        for route in case["routes"]:
            try:
                params = build_parameters(case, route, d)
            except Exception as e:  # noqa: BLE001
                vs.append(V("construction-raised", route=route, exc=repr(e)[:300]))
                continue
            vs += [dict(v, signature=v["signature"] + "/construction") for v in invariant(params, case, leaf, route)]
    if not vs:
        dg, v2, _ = replay_history(case, [["set", 0]])
        vs += v2
    backward = any(j > i for i in range(n) for j in case["graph"][i])
    chained = any(case["graph"][j] for i in range(n) for j in case["graph"][i])
    key = [n, case["graph"], case["form"], case["style"], case["variant"]] if (backward or chained) else None
    return core.ok(key=key, outcome=[backward, chained, len(vs)], violations=vs, states=2, transitions=1, traces=1)


def case_regex(case):
    """$label rewriting on label shapes: prefixes, numeric parts, nested groups, refs followed by operators."""
    from glotaran.parameter import Parameter
    from glotaran.parameter import Parameters

    leaves = case["leaves"]  # label -> value
    expr, want = case["expr"], case["want"]
    ps = {l: Parameter(label=l, value=v) for l, v in leaves.items()}
    ps["out.x"] = Parameter(label="out.x", expression=expr)
    try:
        params = Parameters(ps)
        got = float(params.get("out.x").value)
    except Exception as e:  # noqa: BLE001
        return core.ok(key=expr, outcome="raised", violations=[V("label-rewriting-raised", expr=expr, exc=repr(e)[:300])])
    vs = [] if same(got, float(want)) else [V("label-rewriting-wrong-value", expr=expr, got=got, want=want)]
    return core.ok(key=expr, outcome=got, violations=vs)


def case_fit(case):
    """Result.optimized_parameters and every row of Result.parameter_history: each expression parameter equals its
    expression on the free values of the same row (a real fit of a four-rate parallel decay; two rates are free, two are
    expressions; every declaration order)"""
    import warnings

    from glotaran.optimization.optimize import optimize
    from glotaran.parameter import Parameter
    from glotaran.parameter import Parameters

    from vf.gen import builtin_models as B

    exprs = {"r.c": case["exprs"][0], "r.d": case["exprs"][1]}
    start = {"r.a": 0.31, "r.b": 1.7}
    ps = {}
    for lab in case["order"]:
        if lab in exprs:
            ps[lab] = Parameter(label=lab, expression=exprs[lab])
        else:
            ps[lab] = Parameter(label=lab, value=start[lab], non_negative=bool(case.get("nonneg")) and lab == "r.a")
    params = Parameters(ps)
    md = {"megacomplex": {"m": {"type": "decay-parallel", "compartments": ["s1", "s2", "s3", "s4"], "rates": ["r.a", "r.b", "r.c", "r.d"]}},
          "dataset": {"d1": {"megacomplex": ["m"]}}}  # fmt: skip
    t = np.concatenate([np.linspace(0.0, 2.0, 15), np.geomspace(2.5, 40.0, 10)])
    data = {"d1": B.noisy_dataset(t, np.array([1.0, 2.0, 3.0]), seed=5, salt="c12fit")}
    from glotaran.project import Scheme

    scheme = Scheme(model=B.make_model(md), parameters=params, data=data, maximum_number_function_evaluations=case["nfev"],
                    optimization_method=case["method"], add_svd=False)  # fmt: skip
    # monitor: at the moment the model is evaluated (OptimizationGroup.calculate) the parameter set it is evaluated with
    # is mutually consistent
    from glotaran.optimization import optimization_group as og

    seen_at_evaluation = []
    orig_calculate = og.OptimizationGroup.calculate

    def monitored(self, parameters):
        seen_at_evaluation.append({p.label: float(p.value) for p in parameters.all()})
        return orig_calculate(self, parameters)

    og.OptimizationGroup.calculate = monitored
    try:
        with warnings.catch_warnings():
            warnings.simplefilter("ignore")
            try:
                res = optimize(scheme, verbose=False, raise_exception=True)
            except (ValueError, FloatingPointError, np.linalg.LinAlgError) as e:
                return core.ood("fit-raised-" + type(e).__name__)
    finally:
        og.OptimizationGroup.calculate = orig_calculate

    def want(vals):
        env = {"a": vals["r.a"], "b": vals["r.b"]}
        out = {}
        for _ in range(2):  # two expression parameters: two passes are a topological evaluation
            for lab, ex in exprs.items():
                try:
                    out[lab] = eval(ex.replace("$r.", ""), {"__builtins__": {}}, {**env, **{k[2:]: v for k, v in out.items()}})  # noqa: S307
                except NameError:
                    pass
        return out

    vs = []
    got = {p.label: float(p.value) for p in res.optimized_parameters.all()}
    w = want(got)
    for lab in exprs:
        if got[lab] != w[lab]:
            vs.append(V("expression-parameter-value-differs-from-reference/result-optimized-parameters", label=lab, got=got[lab],
                        want=w[lab], relative=abs(got[lab] - w[lab]) / abs(w[lab])))  # fmt: skip
    for k, vals in enumerate(seen_at_evaluation):
        w = want(vals)
        bad = [lab for lab in exprs if vals[lab] != w[lab]]
        if bad:
            vs.append(V("expression-parameter-value-differs-from-reference/at-model-evaluation", label=bad[0], evaluation=k + 1,
                        evaluations=len(seen_at_evaluation), got=vals[bad[0]], want=w[bad[0]]))  # fmt: skip
            break
    labels = list(res.parameter_history.parameter_labels)[1:]
    for r, row in enumerate(np.asarray(res.parameter_history.parameters, dtype=float)):
        vals = dict(zip(labels, [float(x) for x in row[1:]]))
        w = want(vals)
        for lab in exprs:
            if vals[lab] != w[lab]:
                vs.append(V("expression-parameter-value-differs-from-reference/result-history-row", label=lab, row=r,
                            rows=len(res.parameter_history.parameters), got=vals[lab], want=w[lab]))  # fmt: skip
                break
        else:
            continue
        break
    return core.ok(key=[case["exprs"], case["order"], case["method"], case.get("nonneg", False)], outcome=[bool(res.success), len(vs)], violations=vs)


FIT_EXPRS = [["$r.a + $r.b", "$r.c * 2"], ["$r.d + $r.a", "$r.b * 3"], ["$r.a * 2", "$r.b + $r.a"], ["$r.b + 0.5", "$r.c + $r.b"]]


CASE_FUNCS = {
    "fit": case_fit,
    "graph_histories": case_graph_histories,
    "history": case_history,
    "construct": case_construct,
    "regex": case_regex,
}


def regex_cases():
    leaves = {"g.1": 2.0, "g.10": 3.0, "g.1a": 5.0, "h.g.1": 7.0, "a": 11.0, "a1": 13.0, "ab.c": 17.0, "rates.k1": 19.0}
    L = leaves
    cases = [
        ("$g.1 + $g.10", L["g.1"] + L["g.10"]),
        ("$g.10 + $g.1", L["g.10"] + L["g.1"]),
        ("$g.1*$g.10", L["g.1"] * L["g.10"]),
        ("($g.1)*($g.10)", L["g.1"] * L["g.10"]),
        ("$g.1a - $g.1", L["g.1a"] - L["g.1"]),
        ("$h.g.1 + $g.1", L["h.g.1"] + L["g.1"]),
        ("$a + $a1", L["a"] + L["a1"]),
        ("$a1 + $a", L["a1"] + L["a"]),
        ("$a*2", L["a"] * 2),
        ("2*$a", 2 * L["a"]),
        ("$a/$a1", L["a"] / L["a1"]),
        ("$a**2", L["a"] ** 2),
        ("-$a", -L["a"]),
        ("sqrt($a)", math.sqrt(L["a"])),
        ("sqrt($ab.c)+$a", math.sqrt(L["ab.c"]) + L["a"]),
        ("$rates.k1 if $a > 1 else $a1", L["rates.k1"]),
        ("max($a, $a1)", max(L["a"], L["a1"])),
        ("$a+$a+$a", L["a"] * 3),
        ("1 - $g.1 - $g.10", 1 - L["g.1"] - L["g.10"]),
        ("$g.1 ", L["g.1"]),
        ("3.5", 3.5),
        ("1e-3*$a", 1e-3 * L["a"]),
    ]
    return [{"leaves": leaves, "expr": e, "want": w} for e, w in cases]


def run(run: core.Run):
    quick = run.tier == "quick"
    hist_n = 4
    depth = 3 if quick else 4
    run.bounds = {
        "history_graphs_n_max": hist_n, "history_depth": depth,
        "construct_n5": "all 29281 graphs", "construct_n6": "none (quick)" if quick else "all 3781503 graphs",
        "events": EVENTS, "forms": ["sum", "prod", "mix"], "label_styles": ["flat", "nested"],
    }  # fmt: skip
    run.rule = (
        "every labelled DAG of references over n parameters in fixed declaration order (= every dependency "
        "graph in every declaration order); per graph an explicit-state BFS over set/update/copy/export "
        "histories on a fresh real Parameters object, digest = all fields of all parameters; oracle = "
        "topological reference evaluation, bit-equal. distinct_nontrivial = distinct (graph, form, style, "
        "variant) that contain a reference to a later-declared parameter or to another expression parameter"
    )
    run.assumptions = [
        "expression forms limited to +, *, sqrt (bit-exact reference); values positive",
        "reserved asteval names are not valid labels and are excluded",
    ]
    run.map("regex", regex_cases())
    # (0) the optimiser's own updates: results and history rows of real fits
    fits = []
    for ex in FIT_EXPRS:
        for order in itertools.permutations(["r.a", "r.b", "r.c", "r.d"]):
            if quick and order not in (("r.a", "r.b", "r.c", "r.d"), ("r.d", "r.c", "r.b", "r.a"), ("r.c", "r.a", "r.d", "r.b")):
                continue
            for method in ("TrustRegionReflection", "Dogbox", "Levenberg-Marquardt"):
                for nonneg in (False, True):
                    fits.append({"exprs": ex, "order": list(order), "method": method, "nfev": 4 if quick else 7, "nonneg": nonneg})
    run.map("fit", fits)
    # (1) histories on all graphs n <= 4
    cases = []
    for n in range(1, hist_n + 1):
        for g in all_dags(range(n)):
            gk = graph_key(g, n)
            forms = ["sum", "prod", "mix", "idx", "alt"] if n <= 3 or not quick else ["sum", "idx", "alt"]
            for form in forms:
                for style in ("flat", "nested"):
                    if n == 4 and style == "nested" and form != "sum":
                        continue
                    for variant in ("plain", "nonneg"):
                        if variant == "nonneg" and (form != "sum" or style != "flat"):
                            continue
                        cases.append({"n": n, "graph": gk, "form": form, "style": style, "variant": variant, "depth": depth,
                                      "edit": n <= 3 and style == "flat"})
    run.map("graph_histories", cases)
    # (2) construction routes on all graphs n <= 4 (3 in quick for the slow file routes)
    cases = []
    for n in range(1, 5):
        for g in all_dags(range(n)):
            gk = graph_key(g, n)
            for style in ("flat", "nested"):
                routes = ["dict_list", "yml_str", "from_list" if style == "flat" else "from_dict"]
                if n <= 3 or not quick:
                    routes += ["csv", "tsv"]
                cases.append({"n": n, "graph": gk, "form": "sum", "style": style, "variant": "plain", "routes": routes})
    run.map("construct", cases, part="construct-routes")
    # (3) n = 5: all 29281 graphs, programmatic construction + one update
    cases = [
        {"n": 5, "graph": graph_key(g, 5), "form": "mix", "style": "flat", "variant": "plain", "routes": ["programmatic"]}
        for g in all_dags(range(5))
    ]
    run.map("construct", cases, part="construct-n5")
    if not quick:
        cases = (
            {"n": 6, "graph": graph_key(g, 6), "form": "sum", "style": "flat", "variant": "plain", "routes": ["programmatic"]}
            for g in all_dags(range(6))
        )
        while True:
            batch = list(itertools.islice(cases, 200000))
            if not batch:
                break
            run.map("construct", batch, part="construct-n6", chunksize=1000)
    run.exhaustive = True
