"""C16 -- parameter files round-trip in every supported format.

E1: parameter sets of 1-3 parameters over label shapes x values x standard errors x bounds x flags x expressions,
including *column-level* mixes (spreadsheet / CSV type inference is per column), x {csv, tsv, xlsx, ods} x options x
two save-load cycles; and yml / dict / list specifications (defaults, nested groups, automatic numbering, scientific
notation) against programmatically built twins.
"""
from __future__ import annotations

import itertools
import math
import os
import tempfile
import warnings

from vf import core
from vf.core import V

LEVEL = "exploration"

LABELS = ["a", "g.a", "g.h.a", "1", "g.1", "1.10", "1.1", "10", "1e5.k", "b_2", "rates.k1"]
VALUES = [0.0, 1.0, -1.0, 0.1 + 0.2, 1 / 3, 1e-300, 1e300, 1.7976931348623157e308, 5e-324, 123456789.123456789, -2.5e-7]
BOUNDS = [(-math.inf, math.inf), (0.0, math.inf), (-math.inf, 10.0), (0.1 + 0.2, 1e300), (-1e-300, 1 / 3)]
STDERR = [math.nan, 0.25, 1e-12]


def param_spec(label, value=1.5, bounds=(-math.inf, math.inf), vary=True, nonneg=False, stderr=math.nan, expr=None):
    d = {"label": label, "minimum": bounds[0], "maximum": bounds[1], "vary": vary, "non_negative": nonneg, "standard_error": stderr}
    if expr is not None:
        d["expression"] = expr
    else:
        d["value"] = value
    return d


def enc(x):
    return core.jsonable(x)


def dec(x):
    return float(x) if isinstance(x, str) else x


def build(specs):
    from glotaran.parameter import Parameter
    from glotaran.parameter import Parameters

    ps = {}
    for s in specs:
        kw = {k: (dec(v) if k in ("value", "minimum", "maximum", "standard_error") else v) for k, v in s.items()}
        ps[kw["label"]] = Parameter(**kw)
    return Parameters(ps)


def same_float(a, b):
    return a == b or (isinstance(a, float) and isinstance(b, float) and math.isnan(a) and math.isnan(b))


def compare(orig, loaded, where):
    vs = []
    lo = [p.label for p in orig.all()]
    ll = [p.label for p in loaded.all()]
    if ll != lo:
        vs.append(V("labels-or-their-order-changed", where=where, got=ll, want=lo))
        return vs
    for p in orig.all():
        q = loaded.get(p.label)
        a, b = p.as_dict(), q.as_dict()
        for k in a:
            va, vb = a[k], b[k]
            if k in ("value", "minimum", "maximum", "standard_error"):
                fmt = where.get("format") if isinstance(where, dict) else None
                # xlsx: openpyxl writes numbers with 16 significant digits - the precision of that text format
                within_format_precision = fmt == "xlsx" and math.isfinite(float(va)) and abs(float(vb) - float(va)) <= 4e-16 * abs(float(va))
                if not same_float(float(va), float(vb)) and not within_format_precision:
                    vs.append(V(f"field-changed/{k}", where=where, label=p.label, got=float(vb), want=float(va),
                                rel=abs(float(vb) - float(va)) / abs(float(va)) if va not in (0, math.inf, -math.inf) and not math.isnan(float(va)) else None))  # fmt: skip
            elif va != vb or type(va) is not type(vb):
                vs.append(V(f"field-changed/{k}", where=where, label=p.label, got=repr(vb), want=repr(va)))
    try:
        if not (orig == loaded) and not (isinstance(where, dict) and where.get("format") == "xlsx" and not vs):
            vs.append(V("parameters-eq-false", where=where))
    except Exception as e:  # noqa: BLE001
        vs.append(V("parameters-eq-raised", where=where, exc=repr(e)[:200]))
    return vs


def case_roundtrip(case):
    from glotaran.io import load_parameters
    from glotaran.io import save_parameters

    with warnings.catch_warnings():
        warnings.simplefilter("ignore")
        orig = build(case["specs"])
    fmt = case["format"]
    vs = []
    with tempfile.TemporaryDirectory(prefix="vf-c16-") as d:
        cur = orig
        # history of the process: an earlier load with unusual options (refused or not) and an earlier parameter set that
        # used the same labels with other expressions must leave no trace
        try:
            with warnings.catch_warnings():
                warnings.simplefilter("ignore")
                pf = os.path.join(d, "prime.csv")
                save_parameters(build([{k: enc(v) for k, v in param_spec("zz.p", 0.1 + 0.2).items()}]), pf)
                for kw0 in ({"sep": "; "}, {"sep": "\\s+"}, {"sep": ","}):
                    try:
                        load_parameters(pf, format_name="csv", **kw0)
                    except Exception:  # noqa: BLE001, S110
                        pass
                first_plain = next((s_["label"] for s_ in case["specs"] if s_.get("expression") is None), None)
                if first_plain is not None:
                    build([dict(s_, expression=f"${first_plain} * 1.0") if s_.get("expression") is not None else s_ for s_ in case["specs"]])
        except Exception:  # noqa: BLE001, S110
            pass
        with warnings.catch_warnings():
            warnings.simplefilter("ignore")
            cur = orig = build(case["specs"])
        for cycle in (1, 2):
            f = os.path.join(d, f"p{cycle}.{fmt}")
            kw = dict(case.get("save_kwargs", {}))
            try:
                with warnings.catch_warnings():
                    warnings.simplefilter("ignore")
                    if cycle == 2:
                        # history of the path: a longer table (other values, same labels last) was saved there before
                        stale = [dict(s_, value=enc(7.25)) if s_.get("expression") is None else s_ for s_ in case["specs"]]
                        extra = [{k: enc(v) for k, v in param_spec(f"zz.stale{i}", 10.0 + i).items()} for i in (1, 2, 3)]
                        save_parameters(build(extra + stale), f, **kw)
                        load_parameters(f, **({"sep": kw["sep"]} if "sep" in kw else {}))  # ... and was loaded from there
                        kw["allow_overwrite"] = True
                    save_parameters(cur, f, **kw)
                    lk = {"sep": kw["sep"]} if "sep" in kw else {}
                    loaded = load_parameters(f, **lk)
            except Exception as e:  # noqa: BLE001
                vs.append(V(f"round-trip-raised/{type(e).__name__}", format=fmt, cycle=cycle, message=str(e)[:200]))
                break
            vs += compare(orig, loaded, {"format": fmt, "cycle": cycle})
            if vs:
                break
            cur = loaded
    # signature carries the field and the format family so that findings can be told apart
    out = []
    for v in vs:
        out.append(dict(v, signature=v["signature"] + "/" + fmt))
    key = [case["specs"], fmt, case.get("save_kwargs")]
    return core.ok(key=key, outcome=len(out), violations=out)


def case_spec(case):
    """yml / dict / list specification == programmatic twin"""
    import yaml

    from glotaran.io import load_parameters
    from glotaran.parameter import Parameters

    with warnings.catch_warnings():
        warnings.simplefilter("ignore")
        want = build(case["twin"])
    vs = []
    routes = {}
    spec = case["spec"]
    try:
        with warnings.catch_warnings():
            warnings.simplefilter("ignore")
            routes["python"] = Parameters.from_dict(spec) if isinstance(spec, dict) else Parameters.from_list(spec)
            routes["yml_str"] = load_parameters(case.get("yml") or yaml.safe_dump(spec, sort_keys=False), format_name="yml_str")
            with tempfile.TemporaryDirectory(prefix="vf-c16-") as d:
                f = os.path.join(d, "p.yml")
                open(f, "w").write(case.get("yml") or yaml.safe_dump(spec, sort_keys=False))
                routes["yml_file"] = load_parameters(f)
    except Exception as e:  # noqa: BLE001
        vs.append(V("specification-raised", exc=repr(e)[:300]))
    for name, got in routes.items():
        vs += compare(want, got, {"route": name})
    return core.ok(key=case["name"], outcome=len(vs), violations=vs)


CASE_FUNCS = {"roundtrip": case_roundtrip, "spec": case_spec}


def spec_cases():
    inf = math.inf
    cases = []
    # list with defaults, automatic numbering, scientific notation
    cases.append({"name": "list-defaults-numbering",
                  "spec": [1.5, ["two", 2.5], [3.5, {"vary": False}], ["k4", 4.5, {"min": 0.5, "max": 9}], {"non-negative": True, "min": 0.25}, ["5e-3", "sci"], 7],
                  "twin": [param_spec("1", 1.5, (0.25, inf), nonneg=True), param_spec("two", 2.5, (0.25, inf), nonneg=True),
                           param_spec("3", 3.5, (0.25, inf), vary=False, nonneg=True), param_spec("k4", 4.5, (0.5, 9), nonneg=True),
                           param_spec("sci", 5e-3, (0.25, inf), nonneg=True), param_spec("6", 7.0, (0.25, inf), nonneg=True)]})  # fmt: skip
    cases.append({"name": "dict-nested-defaults",
                  "spec": {"rates": [0.5, ["slow", 0.05], {"non-negative": True}, [0.7, {"max": 3}]],
                           "irf": {"center": [["c", 0.1]], "width": [0.2, 0.3, {"vary": False}]},
                           "rel": [["r1", {"expr": "$rates.1 * 2"}], ["r2", {"expr": "$irf.width.2 + $rates.slow"}]]},
                  "twin": [param_spec("rates.1", 0.5, nonneg=True), param_spec("rates.slow", 0.05, nonneg=True), param_spec("rates.3", 0.7, (-inf, 3), nonneg=True),
                           param_spec("irf.center.c", 0.1), param_spec("irf.width.1", 0.2, vary=False), param_spec("irf.width.2", 0.3, vary=False),
                           param_spec("rel.r1", expr="$rates.1 * 2", vary=False), param_spec("rel.r2", expr="$irf.width.2 + $rates.slow", vary=False)]})  # fmt: skip
    cases.append({"name": "yml-scientific-strings",
                  "yml": "- [a, 1e-3]\n- [b, 1E5, {min: 1e2, max: 2.5e+6}]\n- [c, -4.2e-1]\n- [d, 5, {standard-error: 1e-2}]\n",
                  "spec": [["a", 1e-3], ["b", 1e5, {"min": 1e2, "max": 2.5e6}], ["c", -0.42], ["d", 5, {"standard-error": 1e-2}]],
                  "twin": [param_spec("a", 1e-3), param_spec("b", 1e5, (1e2, 2.5e6)), param_spec("c", -0.42), param_spec("d", 5.0, stderr=1e-2)]})  # fmt: skip
    # every spelling of a number in scientific notation that the documented pattern accepts, as quoted strings
    sci = [("5e-3", 5e-3), (".5e3", 500.0), ("-.25E-2", -0.0025), ("+1E2", 100.0), ("1.5e+2", 150.0), ("007e1", 70.0), ("-4.2e-4", -4.2e-4)]
    cases.append({"name": "scientific-string-spellings",
                  "spec": [[f"s{i}", txt] for i, (txt, _) in enumerate(sci)],
                  "twin": [param_spec(f"s{i}", val) for i, (_, val) in enumerate(sci)]})
    cases.append({"name": "defaults-then-own-options-then-more",
                  "spec": {"rates": [["k1", 1.0], ["k2", 2.0, {"min": 0.1, "max": 2.0, "vary": False}], ["k3", 3.0], 4.0, {"non-negative": True}]},
                  "twin": [param_spec("rates.k1", 1.0, nonneg=True), param_spec("rates.k2", 2.0, (0.1, 2.0), vary=False, nonneg=True),
                           param_spec("rates.k3", 3.0, nonneg=True), param_spec("rates.4", 4.0, nonneg=True)]})  # fmt: skip
    cases.append({"name": "list-own-options-before-others",
                  "spec": [["k1", 1.0, {"vary": False, "max": 5}], ["k2", 2.0], 3.0, {"min": 0}],
                  "twin": [param_spec("k1", 1.0, (0, 5), vary=False), param_spec("k2", 2.0, (0, inf)), param_spec("3", 3.0, (0, inf))]})
    cases.append({"name": "deep-nesting-and-numeric-groups",
                  "spec": {"a": {"b": {"c": [1.0, 2.0]}, "1": [["x", 3.0]]}, "10": [5.0]},
                  "twin": [param_spec("a.b.c.1", 1.0), param_spec("a.b.c.2", 2.0), param_spec("a.1.x", 3.0), param_spec("10.1", 5.0)]})
    for c in cases:
        c["twin"] = [{k: enc(v) for k, v in s.items()} for s in c["twin"]]
    return cases


def run(run: core.Run):
    quick = run.tier == "quick"
    formats = ["csv", "tsv", "xlsx", "ods"]
    sets = []
    # single parameters: every label shape x value; bounds; flags; stderr
    for lab in LABELS:
        for v in VALUES if not quick else VALUES[::2] + [0.1 + 0.2]:
            sets.append([param_spec(lab, v)])
    for b in BOUNDS:
        for se in STDERR:
            for vary, nn in itertools.product((True, False), repeat=2):
                sets.append([param_spec("g.a", 0.3, b, vary, nn, se)])
    # column-level mixes: all rows share a property vs exactly one row differs (type inference is per column)
    base = [("g.1", 1.0), ("g.2", 2.0), ("h.x", 3.0)]
    for k in range(len(base) + 1):
        for prop in ("label_numeric", "bounds", "vary", "nonneg", "stderr", "expr", "int_values"):
            rows = []
            for i, (lab, v) in enumerate(base):
                differs = i == k - 1
                if prop == "label_numeric":
                    rows.append(param_spec(["1", "2", "3"][i] if not differs else "x.y", v))
                elif prop == "bounds":
                    rows.append(param_spec(lab, v, (0.5, 5.0) if differs else (-math.inf, math.inf)))
                elif prop == "vary":
                    rows.append(param_spec(lab, v, vary=not differs))
                elif prop == "nonneg":
                    rows.append(param_spec(lab, v, nonneg=differs))
                elif prop == "stderr":
                    rows.append(param_spec(lab, v, stderr=0.5 if differs else math.nan))
                elif prop == "expr":
                    rows.append(param_spec(lab, v) if not differs or i == 0 else param_spec(lab, expr="$g.1 * 2 + 0.5", vary=False))
                elif prop == "int_values":
                    rows.append(param_spec(lab, float(int(v)) if not differs else v + 0.25))
            sets.append(rows)
    # numeric-looking labels that collide after type inference, expressions across groups, declaration order
    sets.append([param_spec("1.1", 1.0), param_spec("1.10", 2.0)])
    sets.append([param_spec("b.sum", expr="$a.1 + $c.2", vary=False), param_spec("a.1", 1.5), param_spec("c.2", 2.5)])
    sets.append([param_spec("z", 1.0), param_spec("y", expr="$z * 3", vary=False), param_spec("x", 2.0)])
    sets.append([param_spec("e.1", expr="$e.2 * 2", vary=False), param_spec("e.2", expr="$v + 1", vary=False), param_spec("v", 1.5)])
    sets.append([param_spec("01", 1.0), param_spec("1", 2.0)])
    sets.append([param_spec("1e5", 1.0), param_spec("true", 2.0), param_spec("nan_", 3.0), param_spec("None_", 4.0)])
    cases = []
    for specs in sets:
        js = [{k: enc(v) for k, v in s.items()} for s in specs]
        for fmt in formats:
            cases.append({"specs": js, "format": fmt})
    opts = [[param_spec("g.a", 0.3, (-math.inf, 2.0)), param_spec("g.b", 1.0, (0.0, math.inf))]]
    for specs in opts:
        js = [{k: enc(v) for k, v in s.items()} for s in specs]
        for kw in ({"replace_infinfinity": False}, {"sep": ";"}, {"sep": ";", "replace_infinfinity": False}, {"as_optimized": False}):
            cases.append({"specs": js, "format": "csv", "save_kwargs": kw})
        cases.append({"specs": js, "format": "tsv", "save_kwargs": {"replace_infinfinity": False}})
    run.map("roundtrip", cases)
    run.map("spec", spec_cases())
    run.bounds = {"labels": LABELS, "values": [enc(v) for v in VALUES], "bounds": [[enc(a), enc(b)] for a, b in BOUNDS], "formats": formats,
                  "cycles": 2, "column_mixes": "all-same vs exactly-one-row-differs for 7 column properties"}  # fmt: skip
    run.rule = (
        "every label shape x value, bounds x standard error x flags, and column-level mixes of 3-row tables, saved and "
        "loaded twice in csv/tsv/xlsx/ods (+ csv/tsv options); per-field bit-exact equality (NaN aware), label order, "
        "Parameters.__eq__; yml/dict/list specifications with defaults, nesting, numbering and scientific notation against "
        "programmatic twins via from_dict/from_list, yml_str and yml file. distinct_nontrivial = distinct (set, format)"
    )
    run.assumptions = ["labels are restricted to valid parameter labels"]
