"""C02 -- the minimised objective is the documented separable least-squares problem.

E1: complete t-way enumeration (t=2 quick, t=3 + a full product over the interacting axes thorough) of the
scheme feature space of vf/gen/features.py; oracle = independent numpy evaluation (vf/gen/schemes.reference)
compared entry for entry with Optimizer(scheme).objective_function(x).
"""
from __future__ import annotations

import warnings

import numpy as np

from vf import core
from vf.core import V
from vf.gen import features as F
from vf.gen import schemes as S

LEVEL = "exploration"


def _data_digest(scheme):
    return core.digest({k: {n: np.asarray(v.values) for n, v in ds.data_vars.items()} for k, ds in scheme.data.items()})


def evaluate(spec, variant, again=0):
    """Build an Optimizer from the scheme and evaluate the objective; `again` further optimizers are then built
    from the *same* scheme object (a history of constructions): the scheme's data must be left as handed in and
    every later optimizer must minimise the same objective."""
    from glotaran.optimization.optimizer import Optimizer

    scheme = S.build_scheme(spec)
    before = _data_digest(scheme)
    pens = []
    with warnings.catch_warnings(record=True) as w:
        warnings.simplefilter("always")
        for k in range(1 + again):
            o = Optimizer(scheme, verbose=False, raise_exception=True)
            labels, _, _, _ = scheme.parameters.get_label_value_and_bounds_arrays(exclude_non_vary=True)
            o._free_parameter_labels = labels
            pens.append(np.asarray(o.objective_function(S.x_vector(spec, variant)), dtype=float))
            if k == 0:
                opt = o
    hist = []
    if _data_digest(scheme) != before:
        hist.append(V("scheme-data-modified-by-optimizer-construction"))
    for k, p in enumerate(pens[1:], 2):
        if p.shape != pens[0].shape or not np.array_equal(p, pens[0]):
            hist.append(V("later-optimizer-from-same-scheme-differs", optimizer_number=k,
                          max_abs=float(np.abs(p - pens[0]).max()) if p.shape == pens[0].shape else None))  # fmt: skip
            break
    return opt, pens[0], [str(x.message) for x in w], hist


def compare_penalty(pen, ref):
    want = ref["penalty"]
    if pen.shape != want.shape:
        return [V("penalty-vector-length", got=int(pen.size), want=int(want.size))]
    tol = S.tolerance(ref, float(np.abs(want).max()) if want.size else 1.0)
    bad = np.nonzero(~(np.abs(pen - want) <= tol))[0]
    if bad.size:
        npen = sum(len(p) for p in ref["additional_penalty"])
        where = "penalty-entries" if bad.min() >= want.size - npen else "residual-entries"
        return [V(f"objective-differs-from-reference/{where}", first_bad_index=int(bad[0]), n_bad=int(bad.size),
                  size=int(want.size), got=pen[bad[:4]], want=want[bad[:4]], tol=tol)]  # fmt: skip
    return []


def case_scheme(case):
    spec = F.make_spec(case["opts"], variant=case.get("variant", 1), seed=case.get("seed", 0))
    if spec is None:
        return core.ood("invalid-combination")
    try:
        ref = S.reference(spec)
    except S.OutOfDomain as e:
        return core.ood(e.reason)
    if ref["cond"] > 1e8:
        return core.ood("ill-conditioned")
    opt, pen, warns, hist = evaluate(spec, spec["x_variant"], again=2)
    vs = compare_penalty(pen, ref) + hist
    # additional penalties reported per group
    got_add = [list(map(float, g.get_additional_penalties())) for g in opt._optimization_groups]
    want_add = ref["additional_penalty"]
    if [len(a) for a in got_add] != [len(a) for a in want_add]:
        vs.append(V("additional-penalty-count", got=got_add, want=want_add))
    nontrivial = bool(case["opts"])
    return core.ok(key=case["opts"] if nontrivial else None,
                   outcome=[int(pen.size), [len(a) for a in got_add], ref["groups"]["default"]["linked"]],
                   violations=vs)  # fmt: skip


def case_group_independence(case):
    """Changing parameters used only by group 'second' leaves group 'default''s block bit-identical, and the
    other way round (dataset groups contribute independently)."""
    spec = F.make_spec(case["opts"], variant=1)
    if spec is None:
        return core.ood("invalid-combination")
    from glotaran.optimization.optimizer import Optimizer

    try:
        ref = S.reference(spec, 0)
    except S.OutOfDomain as e:
        return core.ood(e.reason)
    scheme = S.build_scheme(spec)
    opt = Optimizer(scheme, verbose=False, raise_exception=True)
    labels, x0, _, _ = scheme.parameters.get_label_value_and_bounds_arrays(exclude_non_vary=True)
    opt._free_parameter_labels = labels
    base = np.array(opt.objective_function(x0), dtype=float)
    n_first = sum(
        ref["datasets"][d["label"]]["weighted_residual"].size for d in spec["datasets"] if d["group"] == "default"
    ) + len(ref["additional_penalty"][0])
    vs = []
    vacuous = []
    for which, pred in (("second", lambda l: ".m4." in l), ("default", lambda l: ".m1." in l or ".m2." in l)):
        x = np.array(x0, dtype=float)
        for i, l in enumerate(labels):
            if pred(l):
                x[i] *= 1.37
        moved = np.array(opt.objective_function(x), dtype=float)
        blk = slice(0, n_first) if which == "second" else slice(n_first, None)
        other = slice(n_first, None) if which == "second" else slice(0, n_first)
        if not np.array_equal(moved[blk], base[blk]):
            vs.append(V("group-block-changed-by-other-groups-parameters", changed_group=which))
        if np.array_equal(moved[other], base[other]):
            vacuous.append(which)  # e.g. NNLS with every clp at zero: the group's own block does not depend on its rates
    if vacuous and not vs:
        return core.ood("group-block-insensitive-to-its-own-parameters")
    return core.ok(key=case["opts"], outcome=len(vs), violations=vs)


CASE_FUNCS = {"scheme": case_scheme, "group_independence": case_group_independence}


def run(run: core.Run):
    quick = run.tier == "quick"
    t = 3 if quick else 4
    opts = F.t_way(t)
    cases = [{"opts": o, "variant": 1, "seed": run.seed} for o in opts]
    if not quick:
        inter = ["nds", "axes", "link", "indexdep", "weights", "dscale", "constraints", "relation", "penalty", "residual"]
        seen = {core.digest(c["opts"]) for c in cases}
        for o in F.product(inter):
            if core.digest(o) not in seen:
                cases.append({"opts": o, "variant": 2, "seed": run.seed})
        run.bounds["full_product_axes"] = inter
    run.bounds.update({"t_way": t, "axes": F.AXES})
    run.rule = (
        f"all assignments of the {len(F.AXES)} scheme-feature axes differing from the default scheme in <= {t} axes"
        + ("" if quick else " plus the full product over the interacting axes")
        + "; oracle: entry-for-entry agreement of Optimizer.objective_function with an independent numpy "
        "evaluation of the statement (tolerance 1e3*eps*cond). distinct_nontrivial = distinct option "
        "assignments with >= 1 non-default feature that are in the property's domain"
    )
    run.assumptions = [
        "harness megacomplexes with closed-form columns; builtin kernels are covered by C04-C07",
        "interval bounds lie on axis points (interval edge semantics are decided by C08)",
        "tiny axes (3 global, 5-8 model points); noisy deterministic data",
    ]
    run.map("scheme", cases)
    gi = [{"opts": dict(o, groups="two")} for o in F.t_way(2 if quick else 3, [a for a in F.AXES if a != "groups"]) if o.get("nds", 2) >= 2]
    run.map("group_independence", gi)
