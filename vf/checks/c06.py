"""C06 -- labelled outputs follow their labels: declaration order and composition.

E1 over programs: for each builtin megacomplex type every permutation of the declaration order of its labels
(parameters permuted along), every order of the megacomplexes of a dataset and every order of the datasets; the
permuted twin's result must equal the base result *selected by label* (matrix columns, clps, concentrations, SAS/DAS,
oscillation / pfid / artifact outputs) and give the same fit.  Composition: shared labels add (megacomplex-scaled),
distinct labels stay separate, index-dependent + index-independent contributions combine to the per-index matrices.
"""
from __future__ import annotations

import copy
import itertools
import warnings

import numpy as np

from vf import core
from vf.core import V
from vf.gen import builtin_models as B

LEVEL = "exploration"

TIME = np.concatenate([np.linspace(-0.5, 1.0, 16), np.array([1.5, 2.5, 4.0, 7.0, 12.0, 20.0])])
SPEC = np.array([600.0, 620.0, 650.0, 690.0])

IRF = {"type": "spectral-multi-gaussian", "center": ["irf.c"], "width": ["irf.w"], "dispersion_center": "irf.dc",
       "center_dispersion_coefficients": ["irf.d1"]}  # fmt: skip
IRF_PLAIN = {"type": "multi-gaussian", "center": ["irf.c"], "width": ["irf.w"]}
IRF_VALS = {"irf.c": 0.1, "irf.w": 0.12, "irf.dc": 650.0, "irf.d1": 0.05}


def family(name, perm=None, irf="none", mc_order=None, ds_order=None, d2_perm=None):
    """returns (model_dict, values, data dict)"""
    vals = dict(IRF_VALS) if irf != "none" else {}
    md = {"megacomplex": {}, "dataset": {"d1": {"megacomplex": []}}}
    if irf != "none":
        md["irf"] = {"irf1": IRF if irf == "dispersed" else IRF_PLAIN}
        if irf == "backsweep":  # the laser's previous pulse: a term per compartment, dropped for very slow compartments
            md["irf"] = {"irf1": dict(IRF_PLAIN, backsweep=True, backsweep_period="irf.bp")}
            vals["irf.bp"] = 13.0
        md["dataset"]["d1"]["irf"] = "irf1"

    def p(items):
        return [items[i] for i in perm] if perm is not None else list(items)

    if name == "parallel":
        comps = ["s1", "s2", "s3", "s4"][: 3 if perm is None or len(perm) == 3 else 4]
        rates = {"s1": 0.3, "s2": 1.7, "s3": 6.0, "s4": 0.05}
        if irf == "backsweep":
            rates["s1"] = 5e-5  # rate x period below the threshold of the backsweep term
        for c in comps:
            vals[f"k.{c}"] = rates[c]
        md["megacomplex"]["m1"] = {"type": "decay-parallel", "compartments": p(comps), "rates": p([f"k.{c}" for c in comps])}
        md["dataset"]["d1"]["megacomplex"] = ["m1"]
    elif name == "decay":
        comps = ["s1", "s2", "s3"]
        entries = [("s2<-s1", "k.1", 1.1), ("s3<-s2", "k.2", 0.4), ("s3<-s3", "k.3", 0.09), ("s1<-s1", "k.4", 0.25), ("s2<-s3", "k.5", 0.02)]
        for _, lab, v in entries:
            vals[lab] = v
        jv = {"s1": 0.7, "s2": 0.3, "s3": 0.0}
        for c in comps:
            vals[f"j.{c}"] = jv[c]
        e_order = [entries[i % len(entries)] for i in (perm if perm is not None else range(len(entries)))] if perm is not None and len(perm) == len(entries) else entries
        c_order = p(comps) if perm is not None and len(perm) == 3 else comps
        md["k_matrix"] = {"km1": {"matrix": {e: lab for e, lab, _ in e_order}}}
        md["initial_concentration"] = {"j1": {"compartments": c_order, "parameters": [f"j.{c}" for c in c_order]}}
        md["megacomplex"]["m1"] = {"type": "decay", "k_matrix": ["km1"]}
        md["dataset"]["d1"].update({"megacomplex": ["m1"], "initial_concentration": "j1"})
    elif name == "chain4":
        # an unbranched chain with only the first compartment excited: declared in chain order the closed-form path
        # applies, declared in any other order the general path must give the same labelled result
        comps = ["s1", "s2", "s3", "s4"]
        vals.update({"k.1": 2.0, "k.2": 0.9, "k.3": 0.3, "k.4": 0.05, "j.s1": 1.0, "j.s2": 0.0, "j.s3": 0.0, "j.s4": 0.0})
        md["k_matrix"] = {"km1": {"matrix": {"s2<-s1": "k.1", "s3<-s2": "k.2", "s4<-s3": "k.3", "s4<-s4": "k.4"}}}
        c_order = p(comps)
        md["initial_concentration"] = {"j1": {"compartments": c_order, "parameters": [f"j.{c}" for c in c_order]}}
        md["megacomplex"]["m1"] = {"type": "decay", "k_matrix": ["km1"]}
        md["dataset"]["d1"].update({"megacomplex": ["m1"], "initial_concentration": "j1"})
    elif name == "decay2":
        # two general decay megacomplexes sharing one initial concentration whose compartments may be interleaved
        comps = ["s1", "s2", "s3", "s4"]
        vals.update({"k.1": 1.1, "k.2": 0.2, "k.3": 0.6, "k.4": 0.05, "j.s1": 0.5, "j.s2": 0.1, "j.s3": 0.3, "j.s4": 0.1})
        md["k_matrix"] = {"kmA": {"matrix": {"s2<-s1": "k.1", "s2<-s2": "k.2"}}, "kmB": {"matrix": {"s4<-s3": "k.3", "s4<-s4": "k.4"}}}
        c_order = p(comps)
        md["initial_concentration"] = {"j1": {"compartments": c_order, "parameters": [f"j.{c}" for c in c_order]}}
        md["megacomplex"]["mA"] = {"type": "decay", "k_matrix": ["kmA"]}
        md["megacomplex"]["mB"] = {"type": "decay", "k_matrix": ["kmB"]}
        md["dataset"]["d1"].update({"megacomplex": ["mA", "mB"], "initial_concentration": "j1"})
    elif name in ("oscillation", "pfid", "oscillation_mixed"):
        labs = ["o1", "o2", "o3"]
        f = {"o1": 25.0, "o2": 60.0, "o3": 140.0} if name != "pfid" else {"o1": 610.0, "o2": 640.0, "o3": 700.0}
        r = {"o1": 0.3, "o2": 1.1, "o3": 2.5} if name == "oscillation" else {"o1": -0.8, "o2": -1.5, "o3": -3.0}
        if name == "oscillation_mixed":  # rising and decaying oscillations side by side
            r = {"o1": -0.8, "o2": 0.5, "o3": 1.5}
        for l in labs:
            vals[f"f.{l}"] = f[l]
            vals[f"r.{l}"] = r[l]
        md["megacomplex"]["m1"] = {"type": "damped-oscillation" if name != "pfid" else "pfid", "labels": p(labs),
                                   "frequencies": p([f"f.{l}" for l in labs]), "rates": p([f"r.{l}" for l in labs])}  # fmt: skip
        md["dataset"]["d1"]["megacomplex"] = ["m1"]
    elif name == "spectral":
        shapes = ["a", "b", "c"]
        md["shape"] = {}
        for i, sname in enumerate(shapes):
            vals[f"loc.{sname}"] = 0.5 + 2.0 * i
            vals[f"wid.{sname}"] = 1.0 + 0.5 * i
            md["shape"][f"sh_{sname}"] = {"type": "gaussian", "location": f"loc.{sname}", "width": f"wid.{sname}"}
        order = p(shapes)
        md["megacomplex"]["m1"] = {"type": "spectral", "dimension": "time", "shape": {f"sp_{s}": f"sh_{s}" for s in order}}
        md["dataset"]["d1"]["megacomplex"] = ["m1"]
    elif name == "combo":
        # several megacomplexes in one dataset, some sharing labels, some index dependent, with megacomplex scales
        vals.update({"k.s1": 0.3, "k.s2": 1.7, "k.s3": 6.0, "f.o1": 30.0, "r.o1": 0.5, "ms.1": 1.0, "ms.2": 0.5, "ms.3": 2.0, "ms.4": 1.5})
        mcs = {
            "mA": {"type": "decay-parallel", "compartments": ["s1", "s2"], "rates": ["k.s1", "k.s2"]},
            "mB": {"type": "decay-parallel", "compartments": ["s3", "s2"], "rates": ["k.s3", "k.s1"]},  # shares s2, new label first
            "mO": {"type": "damped-oscillation", "labels": ["o1"], "frequencies": ["f.o1"], "rates": ["r.o1"]},
            "mC": {"type": "coherent-artifact", "order": 2} if irf != "none" else {"type": "baseline", "dimension": "time"},
        }
        order = mc_order if mc_order is not None else list(mcs)
        md["megacomplex"] = {k: mcs[k] for k in order}
        scales = {"mA": "ms.1", "mB": "ms.2", "mO": "ms.3", "mC": "ms.4"}
        md["dataset"]["d1"]["megacomplex"] = list(order)
        md["dataset"]["d1"]["megacomplex_scale"] = [scales[k] for k in order]
    data = {"d1": B.noisy_dataset(TIME, SPEC, seed=3, salt="c06")}
    if ds_order is not None:
        # several linked datasets sharing the model, declared in the given order
        base = md["dataset"]["d1"]
        md["dataset"] = {}
        data = {}
        axes = {"d1": SPEC, "d2": SPEC[1:], "d3": np.array([600.0, 650.0, 700.0])}
        for lab in ds_order:
            md["dataset"][lab] = copy.deepcopy(base)
            data[lab] = B.noisy_dataset(TIME, axes[lab], seed=3, salt="c06" + lab)
        if d2_perm is not None and "d2" in md["dataset"]:
            # d2 uses a twin of the megacomplex that declares the same labels (with their own parameters) in another order
            m1 = md["megacomplex"]["m1"]
            twin = copy.deepcopy(m1)
            for field in ("compartments", "rates", "labels", "frequencies"):
                if field in twin:
                    twin[field] = [m1[field][i] for i in d2_perm]
            md["megacomplex"]["m1p"] = twin
            md["dataset"]["d2"]["megacomplex"] = ["m1p"]
    return md, vals, data


def run_fit(md, vals, data):
    from glotaran.optimization.optimize import optimize

    # only identifiable parameters are free (scales / initial concentrations are degenerate with the clps: the
    # optimiser would move along their null directions by rounding noise), PFID damping keeps its sign
    free = ("k.", "f.", "loc.", "irf.c", "irf.w")
    options = {l: {"vary": False} for l in vals if not l.startswith(free)}
    scheme = B.make_scheme(md, vals, data, options=options, maximum_number_function_evaluations=1)  # no step: rounding-level comparison
    with warnings.catch_warnings():
        warnings.simplefilter("ignore")
        return optimize(scheme, verbose=False, raise_exception=True)


def aligned(a, b):
    """bring DataArray b onto a's label order along every string-labelled dimension; component dims by rate"""
    for dim in a.dims:
        if dim not in b.dims:
            return None
        ca = a.coords[dim].values
        if ca.dtype.kind in "UOS":
            if sorted(map(str, ca)) != sorted(map(str, b.coords[dim].values)):
                return None
            b = b.sel({dim: ca})
        elif str(dim).startswith("component_"):
            rname = "rate_" + str(dim)[len("component_"):]
            if rname in a.coords and rname in b.coords:
                ra, rb = a.coords[rname].values, b.coords[rname].values
                idx = [int(np.argmin(np.abs(rb - x))) for x in ra]
                if sorted(idx) != list(range(len(ra))):
                    return None
                b = b.isel({dim: idx})
    return b.transpose(*a.dims)


def compare(base, twin, what):
    vs = []
    if abs(float(base.cost) - float(twin.cost)) > 1e-9 * max(1.0, abs(float(base.cost))):
        vs.append(V("fit-changes-under-permutation-of-declarations", what=what, cost_base=float(base.cost), cost_twin=float(twin.cost)))
    for p in base.optimized_parameters.all():
        q = twin.optimized_parameters.get(p.label)
        if abs(float(p.value) - float(q.value)) > 1e-7 * max(1.0, abs(float(p.value))):
            vs.append(V("optimised-parameter-changes-under-permutation", what=what, label=p.label))
            break
    for label in base.data:
        a_ds, b_ds = base.data[label], twin.data[label]
        for name in a_ds.data_vars:
            if name not in b_ds:
                vs.append(V("result-variable-missing-in-permuted-twin", what=what, dataset=label, variable=str(name)))
                continue
            a = a_ds[name]
            if a.dtype.kind not in "fc":
                continue
            b = aligned(a, b_ds[name])
            if b is None:
                vs.append(V("labels-differ-under-permutation", what=what, dataset=label, variable=str(name)))
                continue
            av, bv = np.asarray(a.values, dtype=float), np.asarray(b.values, dtype=float)
            scale = max(np.abs(av).max(), 1e-300) if av.size else 1.0
            tol = 1e-12 * scale if str(name) in ("matrix", "species_concentration") or "oscillation_cos" in str(name) or "oscillation_sin" in str(name) else 1e-9 * scale
            if "phase" in str(name):
                # the unwrapped phase of a label is the same number under every declaration order (not only modulo 2 pi)
                d = np.abs(av - bv)
                bad = d.max() > 1e-6 if d.size else False
            else:
                bad = av.shape != bv.shape or (av.size and np.abs(av - bv).max() > tol)
            if bad:
                vs.append(V("labelled-output-differs-under-permutation-of-declarations", what=what, dataset=label, variable=str(name),
                            max_abs=float(np.abs(av - bv).max()) if av.shape == bv.shape and av.size else None, scale=float(scale)))  # fmt: skip
    return vs


def case_permutation(case):
    name, irf = case["family"], case["irf"]
    base = run_fit(*family(name, None if case.get("n") is None else list(range(case["n"])), irf))
    twin = run_fit(*family(name, case["perm"], irf))
    vs = compare(base, twin, {"family": name, "perm": case["perm"], "irf": irf})
    return core.ok(key=[name, irf, case["perm"]], outcome=len(vs), violations=vs)


def case_mc_order(case):
    base = run_fit(*family("combo", irf=case["irf"]))
    twin = run_fit(*family("combo", irf=case["irf"], mc_order=case["order"]))
    vs = compare(base, twin, {"megacomplex_order": case["order"], "irf": case["irf"]})
    return core.ok(key=[case["irf"], case["order"]], outcome=len(vs), violations=vs)


def case_ds_order(case):
    base = run_fit(*family(case["family"], irf=case["irf"], ds_order=sorted(case["order"])))
    twin = run_fit(*family(case["family"], irf=case["irf"], ds_order=case["order"]))
    vs = compare(base, twin, {"dataset_order": case["order"], "family": case["family"], "irf": case["irf"]})
    return core.ok(key=[case["family"], case["irf"], case["order"]], outcome=len(vs), violations=vs)


def case_ds_labels(case):
    """linked datasets whose megacomplexes declare the same labels in different orders"""
    base = run_fit(*family(case["family"], irf=case["irf"], ds_order=case["order"], d2_perm=[0, 1, 2]))
    twin = run_fit(*family(case["family"], irf=case["irf"], ds_order=case["order"], d2_perm=case["perm"]))
    vs = compare(base, twin, {"dataset_order": case["order"], "d2_label_order": case["perm"], "family": case["family"], "irf": case["irf"]})
    return core.ok(key=[case["family"], case["irf"], case["order"], case["perm"]], outcome=len(vs), violations=vs)


def case_composition(case):
    """combined dataset matrix == per label sum of the megacomplex-scaled single matrices (per index)"""
    md, vals, _ = family("combo", irf=case["irf"], mc_order=case["order"])
    labels, M = B.dataset_matrix(md, vals, "d1", SPEC, TIME)
    order = case["order"]
    scales = {"mA": "ms.1", "mB": "ms.2", "mO": "ms.3", "mC": "ms.4"}
    want: dict = {}
    first_seen = []
    for i, mc in enumerate(order):
        l, m, _, _ = B.calc_matrix(md, vals, "d1", SPEC, TIME, megacomplex_index=i)
        m = m * vals[scales[mc]]
        if m.ndim == 2:
            m = np.broadcast_to(m, (SPEC.size,) + m.shape)
        for k, lab in enumerate(l):
            if lab in want:
                want[lab] = want[lab] + m[:, :, k]
            else:
                want[lab] = m[:, :, k].copy()
                first_seen.append(lab)
    vs = []
    if sorted(labels) != sorted(first_seen) or len(set(labels)) != len(labels):
        vs.append(V("combined-labels-are-not-the-union-of-megacomplex-labels", got=labels, want=first_seen))
    else:
        Mi = M if M.ndim == 3 else np.broadcast_to(M, (SPEC.size,) + M.shape)
        for lab in labels:
            col = Mi[:, :, labels.index(lab)]
            if np.abs(col - want[lab]).max() > 1e-13 * max(1.0, np.abs(want[lab]).max()):
                vs.append(V("combined-column-is-not-the-sum-of-scaled-contributions", label=lab, order=order,
                            max_abs=float(np.abs(col - want[lab]).max())))  # fmt: skip
    return core.ok(key=[case["irf"], order], outcome=len(vs), violations=vs)


CASE_FUNCS = {"permutation": case_permutation, "mc_order": case_mc_order, "ds_order": case_ds_order, "ds_labels": case_ds_labels, "composition": case_composition}


def run(run: core.Run):
    quick = run.tier == "quick"
    perms = []
    for fam, n, irfs in (("parallel", 3, ("none", "plain", "dispersed", "backsweep")), ("parallel", 4, ("none", "dispersed")),
                         ("decay", 3, ("none", "dispersed")), ("decay", 5, ("none",)), ("decay2", 4, ("none", "plain")), ("chain4", 4, ("none", "plain")),
                         ("oscillation", 3, ("none", "plain", "dispersed")), ("oscillation_mixed", 3, ("none", "plain", "dispersed")), ("pfid", 3, ("dispersed",)), ("spectral", 3, ("none",))):  # fmt: skip
        for irf in irfs:
            all_p = list(itertools.permutations(range(n)))[1:]
            if n >= 5 and quick:
                all_p = all_p[::7]
            for pm in all_p:
                perms.append({"family": fam, "irf": irf, "perm": list(pm), "n": n})
    run.map("permutation", perms)
    mo = []
    for irf in ("none", "dispersed", "plain"):
        orders = list(itertools.permutations(["mA", "mB", "mO", "mC"]))
        for o in orders[1:]:
            mo.append({"irf": irf, "order": list(o)})
    run.map("mc_order", mo if not quick else [m for m in mo if m["irf"] != "plain"])
    comp = [{"irf": irf, "order": list(o)} for irf in ("none", "dispersed", "plain") for o in itertools.permutations(["mA", "mB", "mO", "mC"])]
    run.map("composition", comp)
    do = []
    for fam, irf in (("parallel", "none"), ("combo", "dispersed"), ("oscillation", "plain")):
        for n in (2, 3):
            for o in itertools.permutations(["d1", "d2", "d3"][:n]):
                if list(o) != sorted(o):
                    do.append({"family": fam, "irf": irf, "order": list(o)})
    run.map("ds_order", do)
    dl = []
    for fam, irf in (("parallel", "none"), ("oscillation", "plain")):
        for o in (["d1", "d2"], ["d2", "d1"], ["d1", "d2", "d3"], ["d3", "d2", "d1"]):
            for pm in list(itertools.permutations(range(3)))[1:]:
                dl.append({"family": fam, "irf": irf, "order": o, "perm": list(pm)})
    run.map("ds_labels", dl)
    run.bounds = {"labels_per_megacomplex": "3-4 (5 K-matrix entries)", "megacomplexes_per_dataset": 4, "datasets": "2-3",
                  "irf": ["none", "plain", "dispersed"], "permutations": "all" if not quick else "all for n<=4, every 7th of the 5! K-matrix entry orders"}  # fmt: skip
    run.rule = (
        "every permutation of label declarations per builtin megacomplex type (decay-parallel, decay, damped-oscillation, "
        "pfid, spectral) with and without (dispersed) IRF, every order of 4 megacomplexes in a dataset (shared labels, "
        "mixed index dependence, megacomplex scales) and every order of 2-3 linked datasets; differential oracle: all "
        "result variables selected by label equal the base result's, same fit; composition oracle on the combined matrix. "
        "distinct_nontrivial = distinct non-identity permutations"
    )
    run.assumptions = ["decay-sequential is excluded from label permutation: its declaration order is the chain order (semantic)",
                       "anchoring of columns to their definitions is done by C04 / C05 / C07"]  # fmt: skip
