"""C10 -- the objective is pure and deterministic; optimize() leaves its inputs unchanged.

(a) E2: explicit-state BFS over sequences of objective evaluations (4 vectors + one vector at which the model
    raises) on a fresh real Optimizer per history; state digest = deep digest of everything reachable from the
    Optimizer (minus the parameter history and tee buffer, which the objective never reads); invariant: the
    returned penalty is bit-identical to the one a fresh Optimizer returns for that vector.
(b) optimize() twice / caller's scheme snapshot, all three methods, add_svd on/off.
(c) E5: partial-order analysis of the prange kernels (vf/prange.py) + compiled runs under every thread count.
"""
from __future__ import annotations

import json
import os
import subprocess
import sys
import itertools
import warnings

import numpy as np

from vf import core
from vf.core import V
from vf.digest import deep_digest
from vf.explore import bfs
from vf.gen import features as F
from vf.gen import schemes as S

LEVEL = "model_checking"

EXCLUDE = ("_parameter_history", "_tee", "_optimization_result", "_termination_reason")
N_VECTORS = 4
RAISE_EVENT = 4
RAISE_LATE = 5  # the model raises at its third matrix of the evaluation (an earlier dataset group has been estimated already)


class InjectedFault(RuntimeError):
    pass


def make_optimizer(spec, snapshots=None):
    from glotaran.optimization.optimizer import Optimizer

    scheme = S.build_scheme(spec)
    if snapshots is not None:
        snapshots.append(snapshot_scheme(scheme))
    opt = Optimizer(scheme, verbose=False, raise_exception=True)
    labels, _, _, _ = scheme.parameters.get_label_value_and_bounds_arrays(exclude_non_vary=True)
    opt._free_parameter_labels = labels
    return scheme, opt


def vector(spec, k):
    if k == RAISE_EVENT:
        return S.x_vector(spec, 1) * 1.003
    if k == RAISE_LATE:
        return S.x_vector(spec, 2) * 1.003
    return S.x_vector(spec, k)


def evaluate(spec, opt, k):
    """returns penalty bytes or the exception name"""
    if k in (RAISE_EVENT, RAISE_LATE):
        calls = [0]

        def hook(mc, dm):
            # raise in the middle of the evaluation: the first matrix has been computed already
            calls[0] += 1
            if calls[0] == (2 if k == RAISE_EVENT else 3):
                raise InjectedFault("injected")

        S._FAULT_HOOK[0] = hook
    try:
        with warnings.catch_warnings():
            warnings.simplefilter("ignore")
            pen = np.array(opt.objective_function(vector(spec, k)), dtype=float)
        return pen
    except InjectedFault:
        return "raised"
    finally:
        S._FAULT_HOOK[0] = None


_FRESH: dict = {}


def fresh_value(spec, k, key):
    ck = (key, k)
    if ck not in _FRESH:
        _, opt = make_optimizer(spec)
        _FRESH[ck] = evaluate(spec, opt, k)
    return _FRESH[ck]


def replay(spec, history, key):
    snaps = []
    scheme, opt = make_optimizer(spec, snaps)
    vs = []
    out = None
    if history:
        fresh_value(spec, history[-1], key)  # the reference optimiser is created while `opt` exists, before it evaluates
    bystander = scheme.parameters.copy()  # a newer parameter set holding other values exists during the history
    bystander.set_from_label_and_value_arrays(opt._free_parameter_labels, S.x_vector(spec, 1) * 1.11)
    for i, k in enumerate(history):
        out = evaluate(spec, opt, k)
        if i == len(history) - 1:
            want = fresh_value(spec, k, key)
            if isinstance(want, str) or isinstance(out, str):
                if not (isinstance(want, str) and isinstance(out, str)):
                    vs.append(V("evaluation-raises-depending-on-history", vector=k))
            elif out.shape != want.shape or not np.array_equal(out, want):
                bad = int(np.sum(out != want)) if out.shape == want.shape else -1
                vs.append(V("penalty-depends-on-evaluation-history", vector=k, differing_entries=bad,
                            max_abs=float(np.abs(out - want).max()) if bad > 0 else None))  # fmt: skip
    changed = diff_snapshots(snaps[0], snapshot_scheme(scheme))
    if changed:
        vs.append(V("optimizer-changed-callers-scheme", changed=changed))
    dg = deep_digest(opt, exclude=EXCLUDE)
    return dg, vs, {"outcome": None if out is None else ("raised" if isinstance(out, str) else core.digest(out.tolist()))}


def case_histories(case):
    spec = F.make_spec(case["opts"], variant=0, seed=case.get("seed", 0))
    if spec is None:
        return core.ood("invalid-combination")
    try:
        S.reference(spec, 0)
    except S.OutOfDomain as e:
        return core.ood(e.reason)
    key = core.digest(case["opts"])
    _FRESH.clear()
    events = list(range(N_VECTORS)) + [RAISE_EVENT]
    if case["opts"].get("nds") == 3 and str(case["opts"].get("groups", "one")).startswith("two"):
        events.append(RAISE_LATE)
    r = bfs(lambda h, info: events, lambda h: replay(spec, h, key), case["depth"])
    # nondeterminism guard: replaying one history twice gives the same digest
    h = max(r["state_histories"].values(), key=len)
    d1, _, _ = replay(spec, h, key)
    d2, _, _ = replay(spec, h, key)
    if d1 != d2:
        raise RuntimeError(f"harness nondeterminism: history {h} digests {d1} {d2}")
    vs = []
    for v in r["violations"]:
        hh = v.pop("history")
        vs.append(dict(v, func="history", case={"opts": case["opts"], "history": hh, "seed": case.get("seed", 0)}))
    return core.ok(key=case["opts"] or "default", outcome={"states": r["states"], "closed": r["closed"]}, violations=vs,
                   states=r["states"], transitions=r["transitions"], traces=r["transitions"], max_depth=r["max_depth"],
                   closed=r["closed"])  # fmt: skip


# --------------------------------------------------------------------------- histories on builtin megacomplexes
def builtin_scheme(name):
    from vf.gen import builtin_models as B

    t = np.concatenate([np.linspace(-1, 1, 21), np.geomspace(1.2, 50, 12)])
    g = np.array([600.0, 620.0, 650.0, 700.0])
    if name == "dispersed_irf_artifact_oscillation":
        md = {
            "megacomplex": {"m1": {"type": "decay-parallel", "compartments": ["s1", "s2", "s3"], "rates": ["k.1", "k.2", "k.3"]},
                            "m2": {"type": "coherent-artifact", "order": 3},
                            "m3": {"type": "damped-oscillation", "labels": ["o1"], "frequencies": ["osc.f"], "rates": ["osc.r"]}},
            "irf": {"irf1": {"type": "spectral-multi-gaussian", "center": ["irf.c"], "width": ["irf.w1", "irf.w2"], "scale": ["irf.s1", "irf.s2"],
                             "dispersion_center": "irf.dc", "center_dispersion_coefficients": ["irf.d1", "irf.d2"],
                             "width_dispersion_coefficients": ["irf.wd1"]}},
            "dataset": {"d1": {"megacomplex": ["m1", "m2", "m3"], "irf": "irf1"}, "d2": {"megacomplex": ["m1", "m3"], "irf": "irf1", "scale": "sc.2"}},
        }  # fmt: skip
        vals = {"k.1": 0.11, "k.2": 1.3, "k.3": 7.0, "irf.c": 0.1, "irf.w1": 0.12, "irf.w2": 0.4, "irf.s1": 1.0, "irf.s2": 0.3,
                "irf.dc": 650.0, "irf.d1": 0.2, "irf.d2": -0.05, "irf.wd1": 0.02, "osc.f": 35.0, "osc.r": 0.4, "sc.2": 1.7}  # fmt: skip
        data = {"d1": B.noisy_dataset(t, g), "d2": B.noisy_dataset(t, g[1:] + 5.0, salt="d2")}
    elif name == "shifted_irf_equal_shifts":
        # an index-dependent IRF whose parameters coincide at neighbouring indices (shift parameters at a shared value)
        md = {
            "megacomplex": {"m1": {"type": "decay-sequential", "compartments": ["s1", "s2"], "rates": ["k.1", "k.2"]},
                            "m2": {"type": "coherent-artifact", "order": 3}},
            "irf": {"irf1": {"type": "multi-gaussian", "center": ["irf.c"], "width": ["irf.w1", "irf.w2"], "shift": ["sh.1", "sh.2", "sh.3", "sh.4"]}},
            "dataset": {"d1": {"megacomplex": ["m1", "m2"], "irf": "irf1"}},
        }  # fmt: skip
        vals = {"k.1": 0.11, "k.2": 1.3, "irf.c": 0.1, "irf.w1": 0.12, "irf.w2": 0.4, "sh.1": 0.05, "sh.2": 0.05, "sh.3": 0.05, "sh.4": 0.2}
        data = {"d1": B.noisy_dataset(t, g)}
    elif name == "multi_gaussian_irf_pfid":
        # index-independent IRF with three Gaussian components (several components per kernel call), PFID and an
        # artifact that takes its width from the IRF
        md = {
            "megacomplex": {"m1": {"type": "decay-parallel", "compartments": ["s1", "s2"], "rates": ["k.1", "k.2"]},
                            "m2": {"type": "coherent-artifact", "order": 2},
                            "m3": {"type": "pfid", "labels": ["p1"], "frequencies": ["pf.f"], "rates": ["pf.r"]}},
            "irf": {"irf1": {"type": "multi-gaussian", "center": ["irf.c", "irf.c2"], "width": ["irf.w1", "irf.w2", "irf.w3"],
                             "scale": ["irf.s1", "irf.s2", "irf.s3"]}},
            "dataset": {"d1": {"megacomplex": ["m1", "m2", "m3"], "irf": "irf1"}},
        }  # fmt: skip
        md["irf"]["irf1"]["center"] = ["irf.c", "irf.c2", "irf.c3"]
        vals = {"k.1": 0.11, "k.2": 1.3, "irf.c": 0.1, "irf.c2": 0.25, "irf.c3": -0.1, "irf.w1": 0.12, "irf.w2": 0.4, "irf.w3": 0.2,
                "irf.s1": 1.0, "irf.s2": 0.3, "irf.s3": 0.15, "pf.f": 640.0, "pf.r": -0.8}  # fmt: skip
        data = {"d1": B.noisy_dataset(t, g)}
    elif name == "general_decay_no_irf_penalty":
        tt = t[t >= 0]
        md = {
            "megacomplex": {"m1": {"type": "decay", "k_matrix": ["km"]}, "m2": {"type": "baseline", "dimension": "time"}},
            "k_matrix": {"km": {"matrix": {"s2<-s1": "k.1", "s2<-s2": "k.2", "s1<-s1": "k.3"}}},
            "initial_concentration": {"j": {"compartments": ["s1", "s2"], "parameters": ["j.1", "j.2"]}},
            "dataset": {"d1": {"megacomplex": ["m1", "m2"], "initial_concentration": "j"}},
            "clp_relations": [{"source": "s1", "target": "s2", "parameter": "rel.p", "interval": (600.0, 650.0)}],
            "clp_penalties": [{"type": "equal_area", "source": "s1", "source_intervals": [(600.0, 700.0)], "target": "s2",
                               "target_intervals": [(600.0, 700.0)], "parameter": "pen.p", "weight": 0.3}],
        }  # fmt: skip
        vals = {"k.1": 0.9, "k.2": 0.05, "k.3": 0.2, "j.1": 1.0, "j.2": 0.0, "rel.p": 0.6, "pen.p": 1.4}
        data = {"d1": B.noisy_dataset(tt, g)}
    else:  # full model with spectral shapes
        tt = t[t >= 0]
        md = {
            "megacomplex": {"m1": {"type": "decay-sequential", "compartments": ["s1", "s2"], "rates": ["k.1", "k.2"]},
                            "mg": {"type": "spectral", "shape": {"s1": "sh1", "s2": "sh2"}}},
            "shape": {"sh1": {"type": "gaussian", "amplitude": "sh.a", "location": "sh.l1", "width": "sh.w"},
                      "sh2": {"type": "skewed-gaussian", "location": "sh.l2", "width": "sh.w", "skewness": "sh.b"}},
            "dataset": {"d1": {"megacomplex": ["m1"], "global_megacomplex": ["mg"], "spectral_axis_scale": 2.0}},
        }  # fmt: skip
        vals = {"k.1": 1.1, "k.2": 0.07, "sh.a": 2.0, "sh.l1": 1240.0, "sh.l2": 1340.0, "sh.w": 90.0, "sh.b": 0.2}
        data = {"d1": B.noisy_dataset(tt, g)}
    options = {l: {"vary": False} for l in vals if l.startswith(("j.", "irf.s", "irf.dc", "sh."))}
    if name == "general_decay_no_irf_penalty":
        # expression parameters, evaluated by the Parameters object's interpreter: k.3 refers to rel.p, an expression
        # parameter declared after it (same values as the plain numbers they replace: 0.2 and 0.6)
        options["k.3"] = {"expression": "$rel.p / 3"}
        options["rel.p"] = {"expression": "$k.2 * 12"}
    return B.make_scheme(md, vals, data, options=options)


def builtin_vector(x0, k):
    if k == RAISE_EVENT:
        x = np.array(x0)
        x[0] = -1e4  # a hugely negative first rate overflows the concentrations: the decay megacomplex raises ValueError
        return x
    return np.asarray(x0) * (1.0 + 0.013 * k * (1 + np.arange(len(x0)) % 3))


def builtin_replay(name, history, fresh):
    from glotaran.optimization.optimizer import Optimizer

    scheme = builtin_scheme(name)
    snap = snapshot_scheme(scheme)
    opt = Optimizer(scheme, verbose=False, raise_exception=True)
    labels, x0, _, _ = scheme.parameters.get_label_value_and_bounds_arrays(exclude_non_vary=True)
    opt._free_parameter_labels = labels

    def ev(o, k):
        try:
            with warnings.catch_warnings():
                warnings.simplefilter("ignore")
                return np.array(o.objective_function(builtin_vector(x0, k)), dtype=float)
        except (ValueError, FloatingPointError, OverflowError, np.linalg.LinAlgError) as e:
            return "raised:" + type(e).__name__

    vs = []
    out = None
    # the stateless reference is created (and evaluated) while `opt` exists but before `opt` evaluates: objects of other
    # optimisers must not influence this one
    want_last = None
    if history:
        o2 = Optimizer(builtin_scheme(name), verbose=False, raise_exception=True)
        o2._free_parameter_labels = labels
        want_last = ev(o2, history[-1])
    # ... and a newer parameter set holding *other* values exists while `opt` evaluates (objects of the same class
    # created later must not influence this optimiser either)
    bystander = scheme.parameters.copy()
    bystander.set_from_label_and_value_arrays(labels, builtin_vector(x0, 7))
    for i, k in enumerate(history):
        out = ev(opt, k)
        if i == len(history) - 1:
            want = want_last
            if isinstance(want, str) or isinstance(out, str):
                if want != out if isinstance(want, str) and isinstance(out, str) else True:
                    vs.append(V("evaluation-raises-depending-on-history", vector=k, got=str(out)[:40], want=str(want)[:40], scheme=name))
            elif out.shape != want.shape or not np.array_equal(out, want, equal_nan=True):
                vs.append(V("penalty-depends-on-evaluation-history", vector=k, scheme=name,
                            max_abs=float(np.nanmax(np.abs(out - want))) if out.shape == want.shape else None))  # fmt: skip
    changed = diff_snapshots(snap, snapshot_scheme(scheme))
    if changed:
        vs.append(V("optimizer-changed-callers-scheme", changed=changed, scheme=name))
    return deep_digest(opt, exclude=EXCLUDE), vs, {"outcome": out if isinstance(out, str) or out is None else core.digest(np.nan_to_num(out).tolist())}


def case_builtin_histories(case):
    fresh: dict = {}
    events = list(range(N_VECTORS)) + [RAISE_EVENT]
    r = bfs(lambda h, info: events, lambda h: builtin_replay(case["scheme"], h, fresh), case["depth"])
    vs = []
    for v in r["violations"]:
        hh = v.pop("history")
        vs.append(dict(v, func="builtin_history", case={"scheme": case["scheme"], "history": hh}))
    raised = any(isinstance(o, str) and "raised" in o for o in r["outcomes"])
    return core.ok(key=case["scheme"], outcome={"states": r["states"], "closed": r["closed"], "raising_vector_raises": raised}, violations=vs,
                   states=r["states"], transitions=r["transitions"], traces=r["transitions"], max_depth=r["max_depth"], closed=r["closed"])  # fmt: skip


def case_builtin_history(case):
    dg, vs, info = builtin_replay(case["scheme"], case["history"], {})
    return core.ok(key=dg, outcome=str(info["outcome"])[:40], violations=vs)


BUILTIN_SCHEMES = ["dispersed_irf_artifact_oscillation", "general_decay_no_irf_penalty", "full_model_spectral", "multi_gaussian_irf_pfid", "shifted_irf_equal_shifts"]


def case_history(case):
    spec = F.make_spec(case["opts"], variant=0, seed=case.get("seed", 0))
    _FRESH.clear()
    dg, vs, info = replay(spec, case["history"], "replay")
    return core.ok(key=dg, outcome=info["outcome"], violations=vs)


# --------------------------------------------------------------------------- optimize twice / inputs unchanged
def snapshot_scheme(scheme):
    snap = {"parameters": [], "data": {}, "model": None}
    for p in scheme.parameters.all():
        d = p.as_dict()
        snap["parameters"].append([d["label"], float(d["value"]).hex(), float(d["minimum"]).hex(), float(d["maximum"]).hex(),
                                   d["vary"], d["non_negative"], d["expression"], float(d["standard_error"]).hex()])  # fmt: skip
    snap["model"] = deep_digest(scheme.model.as_dict())
    for label, ds in scheme.data.items():
        entry = {}
        for name in list(ds.data_vars) + list(ds.coords):
            a = np.asarray(ds[name].values)
            entry[name] = [str(ds[name].dims), str(a.dtype), core.digest(a.tolist()) if a.dtype.kind in "OUS" else
                           __import__("hashlib").sha1(np.ascontiguousarray(a).tobytes()).hexdigest()[:12]]  # fmt: skip
        snap["data"][label] = entry
    return snap


def diff_snapshots(a, b):
    out = []
    if a["parameters"] != b["parameters"]:
        out.append("parameters")
    if a["model"] != b["model"]:
        out.append("model")
    for label in a["data"]:
        for name, v in a["data"][label].items():
            if b["data"].get(label, {}).get(name) != v:
                out.append(f"data[{label}].{name}")
    return out


def result_fingerprint(result):
    fp = {"cost": float(result.cost).hex(), "nfev": result.number_of_function_evaluations,
          "params": [[p.label, float(p.value).hex()] for p in result.optimized_parameters.all()]}  # fmt: skip
    data = {}
    for label, ds in result.data.items():
        for name in ("residual", "fitted_data", "clp", "matrix"):
            if name in ds:
                data[f"{label}.{name}"] = __import__("hashlib").sha1(np.ascontiguousarray(ds[name].values).tobytes()).hexdigest()[:12]
    fp["data"] = data
    return fp


def case_optimize_twice(case):
    from glotaran.optimization.optimize import optimize

    spec = F.make_spec(case["opts"], variant=0, seed=case.get("seed", 0))
    if spec is None:
        return core.ood("invalid-combination")
    try:
        ref0 = S.reference(spec, 0)
    except S.OutOfDomain as e:
        return core.ood(e.reason)
    n_free = sum(1 for _, _, vary in S.parameter_table(spec) if vary)
    if ref0["penalty"].size - n_free - ref0["number_of_clps"] <= 0:
        return core.ood("no-degrees-of-freedom")
    scheme = S.build_scheme(spec, optimization_method=case["method"], maximum_number_function_evaluations=case["nfev"],
                            add_svd=case["add_svd"])  # fmt: skip
    before = snapshot_scheme(scheme)
    vs = []
    fps = []
    for _ in range(2):
        with warnings.catch_warnings():
            warnings.simplefilter("ignore")
            try:
                res = optimize(scheme, verbose=False, raise_exception=True)
            except (ValueError, FloatingPointError, np.linalg.LinAlgError) as e:
                # an unbounded method can drive the harness model into overflow: no result to compare
                return core.ood("fit-raised-" + type(e).__name__)
        fps.append(result_fingerprint(res))
        changed = diff_snapshots(before, snapshot_scheme(scheme))
        if changed:
            vs.append(V("optimize-changed-callers-scheme", changed=changed, method=case["method"]))
            break
    if len(fps) == 2 and fps[0] != fps[1]:
        diff = [k for k in fps[0] if fps[0][k] != fps[1][k]]
        vs.append(V("optimize-twice-gives-different-results", differing=diff, method=case["method"]))
    return core.ok(key=[case["opts"], case["method"], case["add_svd"]], outcome=fps[0]["nfev"] if fps else None, violations=vs)


def case_insitu(case):
    """E5 in situ: one objective evaluation of a builtin scheme with every numba dispatcher of the package replaced by its
    Python source under the recording proxies (vf/insitu.py); conflict relation of every parallel region must be empty
    and the penalty must agree with the compiled evaluation"""
    from glotaran.optimization.optimizer import Optimizer

    from vf.insitu import InSitu

    def penalty():
        scheme = builtin_scheme(case["scheme"])
        opt = Optimizer(scheme, verbose=False, raise_exception=True)
        labels, x0, _, _ = scheme.parameters.get_label_value_and_bounds_arrays(exclude_non_vary=True)
        opt._free_parameter_labels = labels
        with warnings.catch_warnings():
            warnings.simplefilter("ignore")
            return np.array(opt.objective_function(builtin_vector(x0, 1)), dtype=float)

    compiled = penalty()
    with InSitu() as ins:
        traced = penalty()
    vs = []
    regions = iters = 0
    for name, rep in sorted(ins.reports.items()):
        regions += rep["regions"]
        iters += rep["parallel_iterations"]
        for c in rep["conflicts"]:
            vs.append(V("parallel-iterations-conflict/in-situ", kernel=name, scheme=case["scheme"], **c))
    scale = max(1.0, float(np.abs(compiled).max()))
    if traced.shape != compiled.shape or not np.abs(traced - compiled).max() <= 1e-9 * scale:
        vs.append(V("python-source-and-compiled-kernels-disagree/in-situ", scheme=case["scheme"],
                    max_abs=float(np.abs(traced - compiled).max()) if traced.shape == compiled.shape else None))  # fmt: skip
    used = {n: {k: r[k] for k in ("parallel", "outer_calls", "regions", "parallel_iterations", "accesses", "not_instrumented")}
            for n, r in ins.reports.items() if r["outer_calls"] or r["not_instrumented"]}  # fmt: skip
    return core.ok(key=case["scheme"], outcome={"kernels": used}, violations=vs, states=max(1, regions), transitions=max(1, iters),
                   traces=max(1, regions))  # fmt: skip


def case_insitu_model(case):
    """E5 in situ on a model of C14's builtin-model space (kinetics x IRF x add-on x datasets): simulate, then one objective
    evaluation with all dispatchers instrumented"""
    from glotaran.optimization.optimizer import Optimizer
    from glotaran.project import Scheme

    from vf.checks import c14
    from vf.gen import builtin_models as B
    from vf.insitu import InSitu

    if case["addon"] == "artifact" and case["irf"] == "none":
        return core.ood("artifact-needs-irf")
    md, vals, free, species, extra, ds_labels = c14.build(case)
    with warnings.catch_warnings():
        warnings.simplefilter("ignore")
        model, _, data, _, _ = c14.simulate_all(case, md, vals, species, extra, ds_labels)
    start = {k: (v * 1.07 if k in free else v) for k, v in vals.items()}

    def penalty():
        params = B.make_parameters(start, {l: {"vary": False} for l in vals if l not in free})
        scheme = Scheme(model=model, parameters=params, data=data, maximum_number_function_evaluations=1, add_svd=False)
        opt = Optimizer(scheme, verbose=False, raise_exception=True)
        lab, x, _, _ = params.get_label_value_and_bounds_arrays(exclude_non_vary=True)
        opt._free_parameter_labels = lab
        with warnings.catch_warnings():
            warnings.simplefilter("ignore")
            return np.array(opt.objective_function(x), dtype=float)

    compiled = penalty()
    with InSitu() as ins:
        traced = penalty()
    vs = []
    regions = iters = 0
    for name, rep in sorted(ins.reports.items()):
        regions += rep["regions"]
        iters += rep["parallel_iterations"]
        for c in rep["conflicts"]:
            vs.append(V("parallel-iterations-conflict/in-situ", kernel=name, model=case, **c))
    scale = max(1.0, float(np.abs(compiled).max()))
    if traced.shape != compiled.shape or not np.abs(traced - compiled).max() <= 1e-9 * scale:
        vs.append(V("python-source-and-compiled-kernels-disagree/in-situ", model=case,
                    max_abs=float(np.abs(traced - compiled).max()) if traced.shape == compiled.shape else None))  # fmt: skip
    used = sorted(n.rsplit(".", 1)[-1] for n, r in ins.reports.items() if r["outer_calls"])
    skipped = sorted(n.rsplit(".", 1)[-1] for n, r in ins.reports.items() if r["not_instrumented"])
    return core.ok(key={k: case[k] for k in ("kinetics", "irf", "addon", "nds")}, outcome={"kernels": used, "not_instrumented": skipped},
                   violations=vs, states=max(1, regions), transitions=max(1, iters), traces=max(1, regions))  # fmt: skip


from vf.checks.c10_kernels import case_kernel  # noqa: E402

WATCHDOG = {"optimize_twice": 90}  # fits can spin inside scipy/numpy on overflowing input (C15 known finding)

CASE_FUNCS = {"histories": case_histories, "history": case_history, "optimize_twice": case_optimize_twice,
              "kernel": case_kernel, "insitu": case_insitu, "insitu_model": case_insitu_model, "builtin_histories": case_builtin_histories, "builtin_history": case_builtin_history}  # fmt: skip


def run(run: core.Run):
    quick = run.tier == "quick"
    depth = 3 if quick else 4
    axes = [a for a in F.AXES if a != "labels"]
    t = 1 if quick else 2
    opts = F.t_way(t, axes) + [o for o in F.t_way(2, ["link", "penalty", "relation", "dscale", "full", "weights"]) if len(o) == 2]
    opts += [{"groups": g, "penalty": "yes", "nds": 3, "link": False} for g in ("two", "two_unlinked")]
    opts = list({core.digest(o): o for o in opts}.values())
    run.bounds = {"history_depth": depth, "vectors": N_VECTORS, "raising_vector": 1, "schemes_t_way": t}
    run.map("histories", [{"opts": o, "depth": depth, "seed": run.seed} for o in opts])
    run.map("builtin_histories", [{"scheme": n, "depth": depth} for n in BUILTIN_SCHEMES])
    ot = []
    ot_axes = ["layout", "weights", "full", "link", "nds", "residual", "constraints", "penalty"]
    for o in F.t_way(2, ot_axes) if quick else F.t_way(2, axes):
        for method in ("TrustRegionReflection", "Dogbox", "Levenberg-Marquardt"):
            for add_svd in (False, True):
                ot.append({"opts": o, "method": method, "nfev": 4, "add_svd": add_svd, "seed": run.seed})
    run.map("optimize_twice", ot)
    from vf.checks import c10_kernels

    c10_kernels.run_kernels(run)
    run.map("insitu", [{"scheme": n} for n in BUILTIN_SCHEMES], part="prange-in-situ")
    models = []
    for kin, irf, addon in itertools.product(("sequential", "parallel", "decay"), ("none", "gaussian", "multi", "dispersed"),
                                             ("none", "baseline", "artifact", "oscillation")):  # fmt: skip
        for nds, coords in ((1, "standard"),) if quick else ((1, "standard"), (2, "nonuniform")):
            if quick and (kin != "parallel" and addon not in ("none", "oscillation")):
                continue
            models.append({"kinetics": kin, "irf": irf, "addon": addon, "mode": "clp", "nds": nds, "scale": nds == 2, "coords": coords, "pset": 0})
    run.map("insitu_model", models, part="prange-in-situ-models")
    run.rule = (
        "E2: BFS over sequences of objective evaluations (4 parameter vectors + 1 at which the model raises) on a fresh "
        "real Optimizer per history, for every scheme of the t-way feature enumeration; state = deep digest of all "
        "state reachable from the Optimizer; invariant = penalty bit-identical to a fresh Optimizer's. Plus "
        "optimize()-twice / caller-snapshot checks for all methods, and E5 conflict analysis of the prange kernels "
        "with compiled runs under all thread counts. distinct_nontrivial = distinct schemes/kernels shapes explored"
    )
    run.assumptions = [
        "native numba threads are not scheduled by the harness: decided are independence of the parallel iterations "
        "of the kernel source (empty conflict relation => one Mazurkiewicz class) and bit-identical compiled results "
        "for thread counts 1..16",
        "parameter history / tee buffer excluded from the digest (written, never read by the objective)",
    ]
