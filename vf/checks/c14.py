"""C14 -- simulation and fitting agree: simulated data are reproduced and recovered.

E1 over builtin model combinations (kinetics x IRF x add-ons x clp-driven / full model x datasets x coordinates x
dataset scale x generating parameter set).  Oracle: at the generating parameters the objective is zero to rounding
and the estimated clps are the generating clps / dataset scale; optimize() from the truth stays there; from all
+-20 % corner perturbations identifiable models return to the truth; seeded noise is reproducible; simulate() leaves
its inputs untouched.
"""
from __future__ import annotations

import itertools
import warnings

import numpy as np
import xarray as xr

from vf import core
from vf.core import V
from vf.gen import builtin_models as B

LEVEL = "exploration"

COORDS = {
    "standard": np.array([600.0, 620.0, 640.0, 660.0, 680.0]),
    "nonuniform": np.array([500.0, 510.0, 590.0, 600.0, 750.0]),
    "descending": np.array([700.0, 680.0, 650.0, 610.0, 600.0]),
}


def time_axis(irf):
    if irf == "none":
        return np.concatenate([np.linspace(0.0, 2.0, 21), np.geomspace(2.5, 60.0, 14)])
    return np.concatenate([np.linspace(-1.0, 1.5, 41), np.geomspace(1.7, 60.0, 14)])


def build(case):
    """returns model dict, generating values, free labels, clp labels of the kinetic part"""
    kin, irf, addon, mode = case["kinetics"], case["irf"], case["addon"], case["mode"]
    pset = case.get("pset", 0)
    vals, free = {}, []
    md = {"megacomplex": {}, "dataset": {}}
    rates = [[0.9, 0.12], [2.5, 0.04]][pset]
    if kin == "single":  # one compartment: one-column matrices
        md["megacomplex"]["mk"] = {"type": "decay-parallel", "compartments": ["s1"], "rates": ["k.1"]}
    elif kin in ("sequential", "parallel"):
        md["megacomplex"]["mk"] = {"type": f"decay-{kin}", "compartments": ["s1", "s2"], "rates": ["k.1", "k.2"]}
    else:
        md["k_matrix"] = {"km": {"matrix": {"s2<-s1": "k.1", "s2<-s2": "k.2", "s1<-s1": "k.3"}}}
        md["initial_concentration"] = {"j1": {"compartments": ["s1", "s2"], "parameters": ["j.1", "j.2"]}}
        md["megacomplex"]["mk"] = {"type": "decay", "k_matrix": ["km"]}
        vals.update({"k.3": [0.3, 0.9][pset], "j.1": 1.0, "j.2": 0.0})
        free.append("k.3")
    if kin == "single":
        vals.update({"k.1": rates[0]})
        free += ["k.1"]
    else:
        vals.update({"k.1": rates[0], "k.2": rates[1]})
        free += ["k.1", "k.2"]
    mcs = ["mk"]
    species = ["s1"] if kin == "single" else ["s1", "s2"]
    if case.get("link") is not None:
        md["dataset_groups"] = {"default": {"link_clp": case["link"]}}
    if case.get("nnls"):  # the generating clps are strictly positive: the non-negative fit reproduces them as well
        md.setdefault("dataset_groups", {}).setdefault("default", {})["residual_function"] = "non_negative_least_squares"
    if irf != "none":
        vals.update({"irf.c": [0.05, 0.2][pset], "irf.w": [0.08, 0.15][pset]})
        free += ["irf.c", "irf.w"]
        if irf == "gaussian":
            md["irf"] = {"irf1": {"type": "gaussian", "center": "irf.c", "width": "irf.w"}}
        elif irf == "multi":
            vals.update({"irf.w2": 0.4, "irf.s1": 1.0, "irf.s2": 0.2})
            md["irf"] = {"irf1": {"type": "multi-gaussian", "center": ["irf.c"], "width": ["irf.w", "irf.w2"], "scale": ["irf.s1", "irf.s2"]}}
        else:
            vals.update({"irf.dc": 640.0, "irf.d1": 0.08})
            free.append("irf.d1")
            md["irf"] = {"irf1": {"type": "spectral-gaussian", "center": "irf.c", "width": "irf.w", "dispersion_center": "irf.dc",
                                  "center_dispersion_coefficients": ["irf.d1"]}}  # fmt: skip
    extra_labels = []
    if addon == "baseline":
        md["megacomplex"]["mb"] = {"type": "baseline", "dimension": "time"}
        mcs.append("mb")
    elif addon == "artifact":
        md["megacomplex"]["ma"] = {"type": "coherent-artifact", "order": 2}
        mcs.append("ma")
        extra_labels = ["coherent_artifact_1_ma", "coherent_artifact_2_ma"]
    elif addon == "oscillation":
        vals.update({"osc.f": 45.0, "osc.r": 0.35})
        free += ["osc.f", "osc.r"]
        md["megacomplex"]["mo"] = {"type": "damped-oscillation", "labels": ["o1"], "frequencies": ["osc.f"], "rates": ["osc.r"]}
        mcs.append("mo")
        extra_labels = ["o1_cos", "o1_sin"]
    ds_labels = [f"ds{i+1}" for i in range(case["nds"])]
    for i, lab in enumerate(ds_labels):
        d = {"megacomplex": list(mcs)}
        if irf != "none":
            d["irf"] = "irf1"
        if kin == "decay":
            d["initial_concentration"] = "j1"
        if case["scale"] and i == len(ds_labels) - 1:
            vals[f"scale.{lab}"] = 2.5
            d["scale"] = f"scale.{lab}"
        if case.get("twin") and i > 0:
            # same megacomplexes, same irf, same axes as ds1 - but dataset-level inputs of the matrix differ
            if kin == "decay":
                vals.update({"j.3": 0.35, "j.4": 0.65})
                md["initial_concentration"]["j2"] = {"compartments": ["s1", "s2"], "parameters": ["j.3", "j.4"]}
                d["initial_concentration"] = "j2"
            else:
                for n in range(len(mcs)):
                    vals[f"ms.{n+1}"] = [2.0, 0.5][n % 2]
                d["megacomplex_scale"] = [f"ms.{n+1}" for n in range(len(mcs))]
        if case.get("neg_scale") and len(mcs) > 1:  # a negative megacomplex scale: the add-on's columns are entirely negative
            vals.update({"ms.1": 1.0, "ms.2": -1.5})
            d["megacomplex_scale"] = ["ms.1", "ms.2"]
        if mode == "full":
            d["global_megacomplex"] = ["mg"]
            if case.get("axis_scale"):
                d["spectral_axis_scale"] = case["axis_scale"]
        md["dataset"][lab] = d
        if addon == "baseline":
            extra_labels = extra_labels + [f"{lab}_baseline"]
    if mode == "full":
        md["shape"] = {"sh1": {"type": "gaussian", "amplitude": "sh.a1", "location": "sh.l1", "width": "sh.w1"},
                       "sh2": {"type": "gaussian", "amplitude": "sh.a2", "location": "sh.l2", "width": "sh.w2"}}  # fmt: skip
        md["megacomplex"]["mg"] = {"type": "spectral", "shape": {"s1": "sh1", "s2": "sh2"}}
        f = case.get("axis_scale") or 1.0
        vals.update({"sh.a1": 1.0, "sh.l1": 620.0 * f, "sh.w1": 60.0 * f, "sh.a2": 0.7, "sh.l2": 670.0 * f, "sh.w2": 45.0 * f})
    return md, vals, free, species, extra_labels, ds_labels


def generating_clp(labels, axis):
    """deterministic, label-specific, strictly positive spectra"""
    x = np.asarray(axis, dtype=float)
    arr = np.zeros((x.size, len(labels)))
    for j, lab in enumerate(labels):
        h = (sum(ord(c) for c in lab) % 17) / 17.0
        arr[:, j] = 0.4 + np.exp(-(((x - (560 + 160 * h)) / (40 + 30 * h)) ** 2)) * (1 + j % 3)
    return xr.DataArray(arr, coords=[("spectral", x), ("clp_label", list(labels))])


def simulate_all(case, md, vals, species, extra, ds_labels, noise_seed=None):
    from glotaran.simulation import simulate

    model = B.make_model(md)
    params = B.make_parameters(vals)
    t = time_axis(case["irf"])
    data, clps, coords_used = {}, {}, {}
    for i, lab in enumerate(ds_labels):
        g = COORDS[case["coords"]] if i == 0 or case.get("twin") else COORDS[case["coords"]][1:] + 3.0 * i
        labels = species + [e for e in extra if not e.endswith("_baseline") or e.startswith(lab)]
        if case.get("square"):  # as many global points as clp labels (full model: as species)
            g = np.array([600.0, 640.0, 690.0, 720.0, 760.0, 800.0])[: len(species) if case["mode"] == "full" else len(labels)] + 3.0 * i
        clp = None if case["mode"] == "full" else generating_clp(labels, g)
        if clp is not None and case.get("clp_layout") == "label_first":
            clp = clp.transpose("clp_label", "spectral")
        tc, gc = t.copy(), g.copy()
        kw = dict(noise=noise_seed is not None, noise_seed=noise_seed, noise_std_dev=0.01) if noise_seed is not None else {}
        data[lab] = simulate(model, lab, params, {"time": tc, "spectral": gc}, clp, **kw)
        clps[lab] = clp
        coords_used[lab] = (t, g, tc, gc)
    return model, params, data, clps, coords_used


def case_truth(case):
    from glotaran.optimization.optimize import optimize
    from glotaran.optimization.optimizer import Optimizer
    from glotaran.project import Scheme

    if case["mode"] == "full" and case["addon"] != "none":
        return core.ood("full-model-with-addon-not-in-space")
    if case["addon"] == "artifact" and case["irf"] == "none":
        return core.ood("artifact-needs-irf")
    md, vals, free, species, extra, ds_labels = build(case)
    vs = []
    with warnings.catch_warnings():
        warnings.simplefilter("ignore")
        model, params, data, clps, coords_used = simulate_all(case, md, vals, species, extra, ds_labels)
    for lab, (t, g, tc, gc) in coords_used.items():
        if not (np.array_equal(t, tc) and np.array_equal(g, gc)):
            vs.append(V("simulate-changed-the-callers-coordinates", dataset=lab))
        d = data[lab]
        if not (np.array_equal(d.coords["time"].values, t) and np.array_equal(d.coords["spectral"].values, g)):
            vs.append(V("simulated-dataset-on-different-coordinates", dataset=lab))
        if not np.all(np.isfinite(d.data.values)):
            vs.append(V("simulated-data-not-finite", dataset=lab))
    if vs:
        return core.ok(key=None, outcome="sim", violations=vs)
    # repeatability of simulate() and of seeded noise
    with warnings.catch_warnings():
        warnings.simplefilter("ignore")
        _, _, data2, _, _ = simulate_all(case, md, vals, species, extra, ds_labels)
        if case.get("noise"):
            # seed 0 is a seed like any other
            _, _, n1, _, _ = simulate_all(case, md, vals, species, extra, ds_labels, noise_seed=0)
            _, _, n2, _, _ = simulate_all(case, md, vals, species, extra, ds_labels, noise_seed=0)
            _, _, n3, _, _ = simulate_all(case, md, vals, species, extra, ds_labels, noise_seed=8)
            for lab in ds_labels:
                if not np.array_equal(n1[lab].data.values, n2[lab].data.values):
                    vs.append(V("seeded-noise-not-reproducible", dataset=lab))
                if np.array_equal(n1[lab].data.values, n3[lab].data.values):
                    vs.append(V("different-noise-seeds-give-identical-data", dataset=lab))
                if np.array_equal(n1[lab].data.values, data[lab].data.values):
                    vs.append(V("noise-not-added", dataset=lab))
    for lab in ds_labels:
        if not np.array_equal(data[lab].data.values, data2[lab].data.values):
            vs.append(V("simulate-twice-gives-different-data", dataset=lab))
    options = {l: {"vary": False} for l in vals if l not in free}
    params = B.make_parameters(vals, options)
    scheme = Scheme(model=model, parameters=params, data=data, maximum_number_function_evaluations=1, add_svd=False)
    with warnings.catch_warnings():
        warnings.simplefilter("ignore")
        opt = Optimizer(scheme, verbose=False, raise_exception=True)
        lab_, x, _, _ = params.get_label_value_and_bounds_arrays(exclude_non_vary=True)
        opt._free_parameter_labels = lab_
        pen = np.asarray(opt.objective_function(x), dtype=float)
    norm_data = float(np.sqrt(sum(float(np.sum(d.data.values**2)) for d in data.values())))
    if not np.linalg.norm(pen) <= 1e-9 * norm_data:
        vs.append(V("objective-not-zero-at-generating-parameters", norm=float(np.linalg.norm(pen)), data_norm=norm_data,
                    relative=float(np.linalg.norm(pen) / norm_data)))  # fmt: skip
    with warnings.catch_warnings():
        warnings.simplefilter("ignore")
        res = optimize(scheme, verbose=False, raise_exception=True)
    for lab in ds_labels:
        rd = res.data[lab]
        scale = float(vals.get(f"scale.{lab}", 1.0))
        if case["mode"] == "clp":
            got = rd["clp"]
            want = clps[lab]
            for L in want.coords["clp_label"].values:
                g_ = got.sel(clp_label=L).values
                w_ = want.sel(clp_label=L).values / scale
                if np.abs(g_ - w_).max() > 1e-6 * max(1.0, np.abs(w_).max()):
                    vs.append(V("estimated-clp-not-generating-clp-over-dataset-scale", dataset=lab, label=str(L), scale=scale,
                                max_abs=float(np.abs(g_ - w_).max())))  # fmt: skip
                    break
        else:
            C = rd["clp"]  # (global_clp_label, clp_label): the generating full-model clp is the identity / scale
            for a in C.coords["global_clp_label"].values:
                for b in C.coords["clp_label"].values:
                    w_ = (1.0 if a == b else 0.0) / scale
                    if abs(float(C.sel(global_clp_label=a, clp_label=b)) - w_) > 1e-6:
                        vs.append(V("full-model-clp-not-identity-over-dataset-scale", dataset=lab, scale=scale,
                                    got=float(C.sel(global_clp_label=a, clp_label=b)), want=w_))  # fmt: skip
                        break
    key = {k: case[k] for k in case if k != "seed"}
    return core.ok(key=key, outcome=len(vs), violations=vs)


def case_recover(case):
    """optimize from the truth stays; from +-20 % corners returns (identifiable models)"""
    from glotaran.optimization.optimize import optimize
    from glotaran.project import Scheme

    md, vals, free, species, extra, ds_labels = build(case)
    with warnings.catch_warnings():
        warnings.simplefilter("ignore")
        model, _, data, _, _ = simulate_all(case, md, vals, species, extra, ds_labels)
    vs = []
    free = [f for f in free if f in case["free"]]
    options = {l: {"vary": False} for l in vals if l not in free}
    for l in free:
        if l.startswith("k.") or l == "irf.w" or l == "osc.r":
            options[l] = {"non_negative": True}
    corner = case["corner"]
    start = dict(vals)
    for l, sgn in zip(free, corner):
        start[l] = vals[l] * (1 + 0.2 * sgn)
    params = B.make_parameters(start, options)
    scheme = Scheme(model=model, parameters=params, data=data, maximum_number_function_evaluations=60, add_svd=False,
                    optimization_method=case.get("method", "TrustRegionReflection"))  # fmt: skip
    with warnings.catch_warnings():
        warnings.simplefilter("ignore")
        res = optimize(scheme, verbose=False, raise_exception=True)
    if not res.success:
        vs.append(V("recovery-fit-unsuccessful", corner=corner, reason=str(res.termination_reason)[:100]))
    tol = 1e-6 if not any(corner) else 1e-4
    for l in free:
        got = float(res.optimized_parameters.get(l).value)
        if abs(got - vals[l]) > tol * max(abs(vals[l]), 1e-3):
            vs.append(V("optimizer-moved-away-from-the-generating-parameters" if not any(corner) else "generating-parameters-not-recovered",
                        label=l, got=got, want=vals[l], corner=corner, nfev=int(res.number_of_function_evaluations)))  # fmt: skip
            break
    key = {k: case[k] for k in case if k != "seed"}
    return core.ok(key=key, outcome=[len(vs), int(res.number_of_function_evaluations)], violations=vs)


CASE_FUNCS = {"truth": case_truth, "recover": case_recover}
WATCHDOG = {"recover": 120}


def run(run: core.Run):
    quick = run.tier == "quick"
    cases = []
    for kin, irf, addon, mode in itertools.product(("sequential", "parallel", "decay"), ("none", "gaussian", "multi", "dispersed"),
                                                   ("none", "baseline", "artifact", "oscillation"), ("clp", "full")):  # fmt: skip
        for nds, scale, coords in ((1, False, "standard"), (2, True, "nonuniform"), (3, True, "descending"), (1, True, "descending"), (2, False, "standard")):
            for pset in (0, 1):
                if quick and pset == 1 and (nds, scale, coords) != (2, True, "nonuniform"):
                    continue
                cases.append({"kinetics": kin, "irf": irf, "addon": addon, "mode": mode, "nds": nds, "scale": scale, "coords": coords,
                              "pset": pset, "noise": pset == 0 and nds == 1})  # fmt: skip
    for kin, irf in (("sequential", "none"), ("parallel", "gaussian"), ("decay", "multi")):
        for nds, scale, coords in ((1, False, "standard"), (2, True, "descending")):
            for f in (2.0, 0.01):
                cases.append({"kinetics": kin, "irf": irf, "addon": "none", "mode": "full", "nds": nds, "scale": scale, "coords": coords,
                              "pset": 0, "noise": False, "axis_scale": f})  # fmt: skip
    # square clp arrays (number of global points == number of clp labels), both layouts of the generating clp array
    for kin, irf, addon in (("sequential", "none", "none"), ("parallel", "gaussian", "baseline"), ("decay", "none", "oscillation"), ("single", "none", "none")):
        for mode in ("clp", "full"):
            if mode == "full" and (addon != "none" or kin == "single"):
                continue
            for layout in ("global_first", "label_first") if mode == "clp" else ("global_first",):
                for nds in (1, 2):
                    cases.append({"kinetics": kin, "irf": irf, "addon": addon, "mode": mode, "nds": nds, "scale": nds == 2, "coords": "standard",
                                  "pset": 0, "noise": False, "square": True, "clp_layout": layout})  # fmt: skip
    # non-negative least squares on models with mixed-sign columns (oscillation, artifact) and plain decays
    for kin, irf, addon in (("sequential", "none", "none"), ("parallel", "gaussian", "oscillation"), ("decay", "gaussian", "artifact"),
                            ("sequential", "none", "oscillation"), ("single", "gaussian", "baseline")):  # fmt: skip
        for nds in (1, 2):
            cases.append({"kinetics": kin, "irf": irf, "addon": addon, "mode": "clp", "nds": nds, "scale": nds == 2, "coords": "standard",
                          "pset": 0, "noise": False, "nnls": True})  # fmt: skip
    for kin, irf in (("sequential", "none"), ("parallel", "gaussian"), ("single", "none")):
        for nnls in (True, False):
            cases.append({"kinetics": kin, "irf": irf, "addon": "baseline", "mode": "clp", "nds": 2, "scale": True, "coords": "standard",
                          "pset": 0, "noise": False, "nnls": nnls, "neg_scale": True})  # fmt: skip
    # one-column matrices, explicitly unlinked / linked groups, and twin datasets (same megacomplexes, irf and axes,
    # different initial concentration / megacomplex scale)
    for kin, irf, addon in itertools.product(("single", "sequential", "parallel", "decay"), ("none", "gaussian"), ("none", "baseline")):
        for link in (False, True):
            for nds, twin in ((1, False), (2, False), (2, True)):
                if nds == 1 and link:
                    continue
                cases.append({"kinetics": kin, "irf": irf, "addon": addon, "mode": "clp", "nds": nds, "scale": nds == 2 and not twin,
                              "coords": "standard", "pset": 0, "noise": False, "link": link, "twin": twin})  # fmt: skip
    run.map("truth", cases)
    rec = []
    fam = [("sequential", "none", "none", ["k.1", "k.2"]), ("parallel", "gaussian", "none", ["k.1", "k.2", "irf.w"]),
           ("sequential", "dispersed", "none", ["k.1", "k.2", "irf.d1"]), ("decay", "none", "baseline", ["k.1", "k.2"]),
           ("sequential", "gaussian", "artifact", ["k.1", "irf.c", "irf.w"]), ("parallel", "multi", "oscillation", ["k.1", "osc.f", "osc.r"])]  # fmt: skip
    for kin, irf, addon, free in fam if quick else fam + [("parallel", "none", "none", ["k.1", "k.2"]), ("sequential", "gaussian", "none", ["k.1", "k.2", "irf.c"])]:
        for mode in ("clp",) if addon != "none" or irf == "dispersed" else ("clp", "full"):
            corners = [tuple([0] * len(free))] + list(itertools.product((-1, 1), repeat=len(free)))
            if quick:
                corners = corners[:1] + corners[1::3]
            for corner in corners:
                rec.append({"kinetics": kin, "irf": irf, "addon": addon, "mode": mode, "nds": 2, "scale": True, "coords": "standard", "pset": 0,
                            "free": free, "corner": list(corner)})  # fmt: skip
    run.map("recover", rec, chunksize=1)
    run.bounds = {"kinetics": 3, "irf": 4, "addons": 4, "modes": 2, "dataset_configurations": 5, "parameter_sets": 2,
                  "extra": "one-compartment models, link_clp False/True, twin datasets on identical axes",
                  "recovery_models": len(fam) if quick else len(fam) + 2, "perturbation": "+-20% corners"}  # fmt: skip
    run.rule = (
        "full product kinetics x IRF x add-on x mode x (datasets, scale, coordinates) (x parameter set); per model: simulate "
        "at the generating parameters with label-specific clps, objective norm <= 1e-9 |data|, estimated clp = generating clp / "
        "scale, simulate() idempotent / input-preserving / seeded noise reproducible; recovery fits from the truth and from "
        "+-20% corners for the models listed as identifiable. distinct_nontrivial = distinct model configurations in the space"
    )
    run.assumptions = ["identifiable recovery set fixed in the check (listed in bounds)", "optimiser trajectories are SciPy's"]
