"""C11 -- parameter transformations, bounds and fixed parameters are respected.

E1 (a) all parameter sets of <= 2 (thorough 3) parameters over kinds x value positions: optimiser-vector round trip
   and bound arrays;  (b) a monitor on *every* vector SciPy evaluates in every optimisation of a small model over
   all mixes of parameter kinds x methods x start positions: feasibility of every iterate / history record / result,
   fixed and expression parameters untouched, ordering of labels, Jacobian columns, covariance and standard errors.
"""
from __future__ import annotations

import itertools
import math
import warnings

import numpy as np

from vf import core
from vf.core import V
from vf.gen import schemes as S

LEVEL = "exploration"

# kind -> options; positions -> value relative to the bounds
KINDS = {
    "free": {},
    "fixed": {"vary": False},
    "min": {"minimum": 0.25},
    "max": {"maximum": 4.0},
    "both": {"minimum": 0.25, "maximum": 4.0},
    "nonneg": {"non_negative": True},
    "nonneg_both": {"non_negative": True, "minimum": 0.25, "maximum": 4.0},
    "nonneg_min0": {"non_negative": True, "minimum": 0.0, "maximum": 4.0},
    "nonneg_max": {"non_negative": True, "maximum": 4.0},
    "expr": {"expression": "REF * 1.5 + 0.125"},
}
POSITIONS = {
    "interior": 1.75,
    "one": 1.0,
    "at_min": 0.25,
    "at_max": 4.0,
    "near_min": 0.25 * (1 + 1e-12),
    "near_max": 4.0 * (1 - 1e-12),
    "tiny": 1e-300,
    "huge": 1e300,
    "negative": -2.5,
}


def valid(kind, pos):
    o = KINDS[kind]
    v = POSITIONS[pos]
    if kind == "expr":
        return pos == "interior"
    if "minimum" in o and v < o["minimum"]:
        return False
    if "maximum" in o and v > o["maximum"]:
        return False
    if o.get("non_negative") and v <= 0:
        return False
    if pos in ("at_min", "near_min") and "minimum" not in o and kind not in ("free", "fixed", "nonneg"):
        return False
    return True


def label_for(style, i):
    return [f"p{i+1}", f"grp.{i+1}", f"grp.sub.k{i+1}"][style % 3] if style else f"p{i+1}"


def build_set(case):
    from glotaran.parameter import Parameter
    from glotaran.parameter import Parameters

    ps = {}
    labels = []
    for i, (kind, pos) in enumerate(case["params"]):
        lab = [f"p{i+1}", f"grp.{i+1}", f"g.sub.k{i+1}"][case.get("style", 0)]
        labels.append(lab)
        o = dict(KINDS[kind])
        if kind == "expr":
            ref = labels[0] if i > 0 else None
            if ref is None:
                o = {"expression": "1.5 + 0.125"}
            else:
                o["expression"] = o["expression"].replace("REF", "$" + ref)
            ps[lab] = Parameter(label=lab, **o)
        else:
            ps[lab] = Parameter(label=lab, value=POSITIONS[pos], **o)
    return Parameters(ps), labels


def ulps(a, b):
    if a == b:
        return 0.0
    return abs(a - b) / (np.finfo(float).eps * max(abs(a), abs(b), np.finfo(float).tiny))


def case_roundtrip(case):
    with warnings.catch_warnings():
        warnings.simplefilter("ignore")
        params, labels = build_set(case)
    vs = []
    orig = {l: float(params.get(l).value) for l in labels}
    for ex in (False, True):
        with warnings.catch_warnings():
            warnings.simplefilter("ignore")
            lab, val, lo, hi = params.get_label_value_and_bounds_arrays(exclude_non_vary=ex)
        want_labels = [l for l, (kind, _) in zip(labels, case["params"]) if not ex or kind not in ("fixed", "expr")]
        if list(lab) != want_labels:
            vs.append(V("optimiser-labels-wrong", exclude_non_vary=ex, got=list(lab), want=want_labels))
            continue
        for L, v, a, b in zip(lab, val, lo, hi):
            kind = case["params"][labels.index(L)][0]
            o = KINDS[kind]
            p = params.get(L)
            if o.get("non_negative"):
                mn = o.get("minimum", -math.inf)
                want_lo = math.log(mn) if mn > 0 else -math.inf
                want_hi = math.log(o["maximum"]) if "maximum" in o else math.inf
                if not (a == want_lo or (math.isfinite(want_lo) and ulps(a, want_lo) <= 4)):
                    vs.append(V("lower-bound-not-transformed-consistently", label=L, kind=kind, got=float(a), want=want_lo))
                if not (b == want_hi or (math.isfinite(want_hi) and ulps(b, want_hi) <= 4)):
                    vs.append(V("upper-bound-not-transformed-consistently", label=L, kind=kind, got=float(b), want=want_hi))
                back = math.exp(v)
            else:
                if a != o.get("minimum", -math.inf) or b != o.get("maximum", math.inf):
                    vs.append(V("bounds-changed-for-plain-parameter", label=L, got=[float(a), float(b)]))
                back = float(v)
            if not (a <= v <= b):
                vs.append(V("optimiser-value-outside-optimiser-bounds", label=L, kind=kind, value=float(v), bounds=[float(a), float(b)]))
            del back, p
        cp = params.copy()
        with warnings.catch_warnings():
            warnings.simplefilter("ignore")
            cp.set_from_label_and_value_arrays(list(lab), np.asarray(val))
        for L in labels:
            kind, pos = case["params"][labels.index(L)]
            got, want = float(cp.get(L).value), orig[L]
            tol_ulps = 4
            if KINDS[kind].get("non_negative"):
                # exp(log(x)) amplifies the rounding of the logarithm by |log x|
                tol_ulps = 4 + 2 * abs(math.log(want)) if want > 0 else 4
            if kind == "expr":  # inherits the rounding of the parameters it references
                tol_ulps = 8 + 2 * max([abs(math.log(POSITIONS[p])) for k, p in case["params"] if KINDS[k].get("non_negative")] or [0])
            ok = ulps(got, want) <= tol_ulps or (KINDS[kind].get("non_negative") and want == 1.0 and abs(got - want) <= 2e-10)
            if kind == "expr" and any(KINDS[k].get("non_negative") and POSITIONS[p] == 1.0 for k, p in case["params"]):
                ok = ok or abs(got - want) <= 1e-9 * abs(want)  # the documented value == 1 guard moves the referenced value by 1e-10
            if not ok:
                vs.append(V("round-trip-not-identity", label=L, kind=kind, position=pos, got=got, want=want, ulps=ulps(got, want),
                            exclude_non_vary=ex))  # fmt: skip
    # the parameter history records the parameter values; restoring a record is the identity
    from glotaran.parameter import ParameterHistory

    with warnings.catch_warnings():
        warnings.simplefilter("ignore")
        hist = ParameterHistory()
        hist.append(params)
        rec = hist.get_parameters(0)[1:]
        for L, v in zip(list(hist.parameter_labels)[1:], rec):
            kind = case["params"][labels.index(L)][0]
            if kind != "expr" and not (float(v) == orig[L]):
                vs.append(V("history-record-differs-from-parameter-value", label=L, kind=kind, got=float(v), want=orig[L]))
        cp = params.copy()
        for p in cp.all():
            if p.expression is None:
                p.value = 0.5 * p.value + 0.125
        cp.set_from_history(hist, 0)
        for L in labels:
            kind = case["params"][labels.index(L)][0]
            got, want = float(cp.get(L).value), orig[L]
            if ulps(got, want) > 8:
                vs.append(V("restore-from-history-not-identity", label=L, kind=kind, got=got, want=want))
    # history of the object: options edited after the set has been exported once (fit, then fix a parameter, then fit
    # again on the same object) - the selection handed to the optimiser follows the current options
    with warnings.catch_warnings():
        warnings.simplefilter("ignore")
        edited = params.copy()
        edited.get_label_value_and_bounds_arrays(exclude_non_vary=True)
        for L, (kind, _) in zip(labels, case["params"]):
            p = edited.get(L)
            if kind in ("fixed", "expr"):
                continue
            p.vary = False
            lab2 = list(edited.get_label_value_and_bounds_arrays(exclude_non_vary=True)[0])
            if L in lab2:
                vs.append(V("parameter-fixed-after-a-first-export-still-handed-to-the-optimiser", label=L, kind=kind))
            p.vary = True
            lab3 = list(edited.get_label_value_and_bounds_arrays(exclude_non_vary=True)[0])
            if L not in lab3:
                vs.append(V("parameter-freed-after-a-first-export-not-handed-to-the-optimiser", label=L, kind=kind))
            other = [M for M in labels if M != L]
            if other:  # ... and a definition by expression given to an existing parameter takes it away from the optimiser
                try:
                    p.expression = f"${other[0]} * 2.0 + 1.0"
                    lab4 = list(edited.get_label_value_and_bounds_arrays(exclude_non_vary=True)[0])
                    if L in lab4 or p.vary:
                        vs.append(V("parameter-given-an-expression-still-handed-to-the-optimiser", label=L, kind=kind, vary=bool(p.vary)))
                except ValueError:
                    pass  # the referenced parameter may itself depend on this one
            break
    # history of constructions: a second, newer parameter set with other values exists while the first makes the trip
    with warnings.catch_warnings():
        warnings.simplefilter("ignore")
        bystander = params.copy()
        for p in bystander.all():
            if p.expression is None and p.vary:
                p.value = 0.5 * p.value + 0.125
        bystander.update_parameter_expression()
        lab, val, _, _ = params.get_label_value_and_bounds_arrays(exclude_non_vary=True)
        params.set_from_label_and_value_arrays(list(lab), np.asarray(val))
    for L in labels:
        kind = case["params"][labels.index(L)][0]
        got, want = float(params.get(L).value), orig[L]
        lim = 1e-9 * max(abs(want), 1e-300) if kind == "expr" or KINDS[kind].get("non_negative") else 0.0
        if not abs(got - want) <= lim:
            vs.append(V("round-trip-not-identity-while-another-parameter-set-exists", label=L, kind=kind, got=got, want=want))
    kinds = sorted({k for k, _ in case["params"]})
    return core.ok(key=case["params"] + [case.get("style", 0)] if kinds != ["free"] else None, outcome=[len(vs)], violations=vs)


# --------------------------------------------------------------------------- monitored optimisations
def fit_spec(seed):
    mcs = {"m1": S.mc_model(["s1", "s2"], rates=[0.6, 2.5])}
    d = S.dataset("d1", [1.0, 2.0, 3.0, 4.0], n_model=8, megacomplexes=["m1"])
    return S.base_spec([d], mcs, seed=seed)


FIT_KINDS = ["free", "fixed", "min", "max", "both", "nonneg", "nonneg_both", "nonneg_min0", "expr"]
FIT_BOUNDS = {"minimum": 0.3, "maximum": 3.0}


def fit_parameters(case):
    from glotaran.parameter import Parameter
    from glotaran.parameter import Parameters

    labels = ["rate.m1.1", "rate.m1.2"]
    start = {"interior": [0.6, 2.5], "on_bound": [0.3, 3.0], "one": [1.0, 1.0 + 2 ** -3]}[case["start"]]
    ps = {}
    if case.get("unused"):  # a free parameter the model never uses, declared first: a rank-deficient Jacobian
        ps["aux.unused"] = Parameter(label="aux.unused", value=1.25)
    for i, (lab, kind) in enumerate(zip(labels, case["kinds"])):
        o = {k: (FIT_BOUNDS[k] if k in FIT_BOUNDS else v) for k, v in KINDS[kind].items()}
        if kind == "nonneg_min0":
            o["minimum"] = 0.0
        if kind == "expr":
            other = labels[1 - i]
            ps[lab] = Parameter(label=lab, expression=f"${other} * 1.5 + 0.125")
        else:
            ps[lab] = Parameter(label=lab, value=start[i], **o)
    return Parameters(ps)


def feasible(p, v):
    # "to rounding": exp(log(bound)) may land a few ulps beyond the bound
    slack = 8 * np.finfo(float).eps * (1 + abs(math.log(abs(v)) if v else 0.0))
    lo = p.minimum - slack * abs(p.minimum) if math.isfinite(p.minimum) else p.minimum
    hi = p.maximum + slack * abs(p.maximum) if math.isfinite(p.maximum) else p.maximum
    if not (lo <= v <= hi):
        return False
    return not (p.non_negative and not v > 0)


def case_fit(case):
    from glotaran.optimization.optimizer import Optimizer
    from glotaran.project import Scheme

    kinds = case["kinds"]
    if all(k in ("fixed", "expr") for k in kinds) or kinds == ["expr", "expr"]:
        return core.ood("no-free-parameter")
    method = case["method"]
    bounded = any(k in ("min", "max", "both", "nonneg_both", "nonneg_min0") for k in kinds)
    if method == "Levenberg-Marquardt" and bounded:
        return core.ood("lm-does-not-support-bounds")
    spec = fit_spec(case.get("seed", 0))
    base = S.build_scheme(spec)
    with warnings.catch_warnings():
        warnings.simplefilter("ignore")
        params = fit_parameters(case)
    scheme = Scheme(model=base.model, parameters=params, data=base.data, optimization_method=method,
                    maximum_number_function_evaluations=case.get("nfev", 8), add_svd=False)  # fmt: skip
    init = {p.label: (float(p.value), p.vary, p.expression) for p in params.all()}
    init_options = {p.label: (p.minimum, p.maximum, p.vary, p.non_negative, p.expression) for p in params.all()}
    vs = []
    seen = []
    opt = Optimizer(scheme, verbose=False, raise_exception=True)
    orig_obj = opt.objective_function

    def monitored(x):
        out = orig_obj(x)
        cur = opt._parameters
        rec = {}
        for p in cur.all():
            rec[p.label] = float(p.value)
            src = params.get(p.label)
            if src.expression is not None:
                other = [q for q in cur.all() if q.label != p.label][0]
                want = float(other.value) * 1.5 + 0.125
                if float(p.value) != want:
                    vs.append(V("expression-parameter-inconsistent-during-fit", label=p.label, got=float(p.value), want=want))
            elif not src.vary:
                if float(p.value) != init[p.label][0]:
                    vs.append(V("fixed-parameter-moved-during-fit", label=p.label, got=float(p.value)))
            elif not feasible(src, float(p.value)):
                vs.append(V("iterate-outside-bounds", label=p.label, value=float(p.value), bounds=[src.minimum, src.maximum],
                            non_negative=src.non_negative, evaluation=len(seen) + 1))  # fmt: skip
        seen.append(rec)
        return out

    opt.objective_function = monitored
    with warnings.catch_warnings():
        warnings.simplefilter("ignore")
        opt.optimize()
        result = opt.create_result()
    # the parameter set handed to the scheme is the caller's: the fit works on its own copy
    for p in params.all():
        if float(p.value) != init[p.label][0] and not (math.isnan(float(p.value)) and math.isnan(init[p.label][0])):
            vs.append(V("callers-parameter-changed-by-the-fit", label=p.label, before=init[p.label][0], after=float(p.value),
                        expression=p.expression))  # fmt: skip
            break
    for p in params.all():
        now = (p.minimum, p.maximum, p.vary, p.non_negative, p.expression)
        if now != init_options[p.label]:
            vs.append(V("callers-parameter-options-changed-by-the-fit", label=p.label, before=list(map(str, init_options[p.label])), after=list(map(str, now))))
            break
    free = [p.label for p in params.all() if p.vary and p.expression is None]
    if list(result.free_parameter_labels) != free:
        vs.append(V("free-parameter-labels-wrong", got=list(result.free_parameter_labels), want=free))
        return core.ok(key=[kinds, method, case["start"]], outcome="labels", violations=vs)
    # result parameters
    for p in result.optimized_parameters.all():
        src = params.get(p.label)
        if src.expression is not None:
            other = [q for q in result.optimized_parameters.all() if q.label != p.label][0]
            if float(p.value) != float(other.value) * 1.5 + 0.125:
                vs.append(V("expression-parameter-inconsistent-in-result", label=p.label))
        elif not src.vary:
            if float(p.value) != init[p.label][0]:
                vs.append(V("fixed-parameter-moved-in-result", label=p.label))
        elif not feasible(src, float(p.value)):
            vs.append(V("result-parameter-outside-bounds", label=p.label, value=float(p.value)))
        if (src.minimum, src.maximum, src.non_negative, src.vary, src.expression) != (p.minimum, p.maximum, p.non_negative, p.vary, p.expression):
            vs.append(V("result-parameter-options-changed", label=p.label))
    # history: every record feasible, fixed/expression consistent
    hist = result.parameter_history
    hl = list(hist.parameter_labels)
    if hl[1:] != [p.label for p in params.all()]:
        vs.append(V("history-labels-wrong", got=hl))
    else:
        for r, row in enumerate(hist.parameters):
            for lab, v in zip(hl[1:], row[1:]):
                src = params.get(lab)
                if src.vary and src.expression is None and not feasible(src, float(v)):
                    vs.append(V("history-record-outside-bounds", label=lab, record=r, value=float(v), non_negative=src.non_negative,
                                bounds=[src.minimum, src.maximum]))  # fmt: skip
                    break
                if not src.vary and src.expression is None and float(v) != init[lab][0]:
                    vs.append(V("history-fixed-parameter-differs", label=lab, record=r, value=float(v), want=init[lab][0]))
                    break
            else:
                continue
            break
    # ordering: Jacobian column j == d penalty / d x_j (optimiser space) by central differences on a fresh optimiser
    if result.success and result.jacobian is not None:
        J = np.asarray(result.jacobian)
        ref_scheme = Scheme(model=base.model, parameters=result.optimized_parameters, data=base.data, add_svd=False)
        fresh = Optimizer(ref_scheme, verbose=False, raise_exception=True)
        lab, x0, lo, hi = result.optimized_parameters.get_label_value_and_bounds_arrays(exclude_non_vary=True)
        fresh._free_parameter_labels = lab
        if J.shape[1] != len(free):
            vs.append(V("jacobian-column-count", got=J.shape[1], want=len(free)))
        else:
            for j in range(len(free)):
                h = 1e-6 * max(1.0, abs(x0[j]))
                xp, xm = np.array(x0), np.array(x0)
                xp[j] += h
                xm[j] -= h
                d = (np.asarray(fresh.objective_function(xp)) - np.asarray(fresh.objective_function(xm))) / (2 * h)
                scale = max(np.abs(d).max(), np.abs(J[:, j]).max(), 1e-12)
                err = np.abs(d - J[:, j]).max() / scale
                others = [np.abs(d - J[:, k]).max() / scale for k in range(len(free)) if k != j]
                # active bounds make scipy use one-sided steps; compare directions loosely but columns strictly
                # the oracle is about *ordering*: a column is wrong when another label's derivative fits it better
                if err > 1e-2 and others and min(others) < 0.5 * err:
                    vs.append(V("jacobian-column-does-not-match-its-label", column=j, label=free[j], rel_err=float(err),
                                other_columns=[float(o) for o in others]))  # fmt: skip
            cov = np.asarray(result.covariance_matrix)
            if cov.shape != (len(free), len(free)):
                vs.append(V("covariance-shape", got=list(cov.shape)))
            else:
                rmse = float(result.root_mean_square_error)
                for j, L in enumerate(free):
                    p = result.optimized_parameters.get(L)
                    err = rmse * math.sqrt(max(cov[j, j], 0.0))
                    if p.non_negative:
                        want = p.value * (math.exp(err) - 1.0) if err < abs(math.log(p.value + (1e-10 if p.value == 1 else 0))) else abs(p.value)
                    else:
                        want = err
                    got = float(p.standard_error)
                    if not (abs(got - want) <= 1e-9 * max(abs(want), 1e-300) or (math.isnan(got) and math.isnan(want))):
                        vs.append(V("standard-error-not-rmse-sqrt-cov", label=L, got=got, want=want, column=j))
                for p in result.optimized_parameters.all():
                    if p.label not in free and not math.isnan(float(p.standard_error)):
                        vs.append(V("standard-error-on-non-free-parameter", label=p.label, got=float(p.standard_error)))
    return core.ok(key=[kinds, method, case["start"]], outcome=[result.success, len(seen)], violations=vs)


CASE_FUNCS = {"roundtrip": case_roundtrip, "fit": case_fit}


def run(run: core.Run):
    quick = run.tier == "quick"
    singles = [(k, p) for k in KINDS for p in POSITIONS if valid(k, p)]
    cases = []
    for style in (0, 1, 2):
        for a in singles:
            cases.append({"params": [list(a)], "style": style})
    for a, b in itertools.product(singles, singles):
        cases.append({"params": [list(a), list(b)], "style": 0})
        cases.append({"params": [list(a), list(b)], "style": 1})
    if not quick:
        small = [(k, p) for k, p in singles if p in ("interior", "one", "at_min", "at_max")]
        for a, b, c in itertools.product(small, small, small):
            cases.append({"params": [list(a), list(b), list(c)], "style": 2})
    run.map("roundtrip", cases)
    fits = []
    for k1, k2 in itertools.product(FIT_KINDS, FIT_KINDS):
        for method in ("TrustRegionReflection", "Dogbox", "Levenberg-Marquardt"):
            for start in ("interior", "on_bound", "one"):
                if start == "on_bound" and not any(k in ("min", "max", "both", "nonneg_both") for k in (k1, k2)):
                    continue
                fits.append({"kinds": [k1, k2], "method": method, "start": start, "seed": run.seed, "nfev": 8 if quick else 25})
    for k1, k2 in (("free", "free"), ("free", "nonneg"), ("nonneg", "free"), ("both", "free"), ("free", "fixed")):
        for method in ("TrustRegionReflection", "Dogbox", "Levenberg-Marquardt"):
            if method == "Levenberg-Marquardt" and "both" in (k1, k2):
                continue
            fits.append({"kinds": [k1, k2], "method": method, "start": "interior", "seed": run.seed, "nfev": 8 if quick else 25, "unused": True})
    run.map("fit", fits)
    run.bounds = {"kinds": list(KINDS), "positions": POSITIONS, "set_size": 2 if quick else 3, "fit_kinds": FIT_KINDS,
                  "methods": 3, "starts": 3, "max_nfev": 8 if quick else 25}  # fmt: skip
    run.rule = (
        "all parameter sets of <= 2 (thorough 3) parameters over kind x value-position (x label style): round trip "
        "through the optimiser vector and bound arrays; every optimisation over all pairs of parameter kinds x 3 "
        "methods x start positions with a monitor on every evaluated vector, every history record and the result; "
        "Jacobian/covariance/standard-error ordering. distinct_nontrivial = distinct cases with a non-plain kind"
    )
    run.assumptions = ["two-rate decay model on 8x4 noisy data; central differences as Jacobian reference"]
