"""C10 (schedules): E5 conflict analysis of the prange kernels + compiled determinism across thread counts."""
from __future__ import annotations

import hashlib
import itertools
import json
import os
import subprocess
import sys

import numpy as np

from vf import core
from vf import prange
from vf.core import V


def _rates(n):
    return np.array([0.3, 1.1, 2.9, 0.07][:n])


def _times(n):
    return np.array([-0.5, 0.1, 0.9, 3.0][:n])


def kernel_inputs(kernel, shape):
    nr, nt, ni, ng = shape
    rates, times = _rates(nr), _times(nt)
    if kernel == "no_irf":
        return [np.zeros((nt, nr)), rates, times]
    centers = np.array([[0.1 + 0.05 * g + 0.01 * i for g in range(ng)] for i in range(ni)])
    widths = np.array([[0.2 + 0.03 * g + 0.02 * i for g in range(ng)] for i in range(ni)])
    scales = np.array([1.0, 0.5, 0.25][:ng])
    if kernel == "gaussian":
        return [np.zeros((ni, nt, nr)), rates, times, centers, widths, scales, False, 1.0]
    if kernel == "gaussian_equal_rows":  # neighbouring global indices with identical IRF parameters (equal shifts)
        return [np.zeros((ni, nt, nr)), rates, times, np.repeat(centers[:1], ni, axis=0), np.repeat(widths[:1], ni, axis=0), scales, False, 1.0]
    if kernel == "gaussian_backsweep":
        return [np.zeros((ni, nt, nr)), rates, times, centers, widths, scales, True, 13.0]
    if kernel == "on_index":
        return [np.zeros((nt, nr)), rates, times, centers[0], widths[0], scales, False, 1.0]
    if kernel == "artifact":
        order = min(3, max(1, nr))
        return [np.zeros((ni, nt, order)), centers[:, 0].copy(), widths[:, 0].copy(), ni, times, order]
    if kernel == "artifact_on_index":
        order = min(3, max(1, nr))
        return [np.zeros((nt, order)), 0.1, 0.2, times, order]
    if kernel == "osc_no_irf":
        return [np.zeros((nt, 2 * nr)), np.array([0.5, 3.0, 7.0, 11.0][:nr]), rates, times]
    raise AssertionError(kernel)


def kernel_ref(kernel):
    import glotaran.builtin.megacomplexes.coherent_artifact.coherent_artifact_megacomplex as ca
    import glotaran.builtin.megacomplexes.damped_oscillation.damped_oscillation_megacomplex as do
    import glotaran.builtin.megacomplexes.decay.decay_matrix_gaussian_irf as gi
    import glotaran.builtin.megacomplexes.decay.util as du

    return {
        "no_irf": (du, "calculate_decay_matrix_no_irf", ()),
        "gaussian": (gi, "calculate_decay_matrix_gaussian_irf", ("calculate_decay_matrix_gaussian_irf_on_index",)),
        "gaussian_equal_rows": (gi, "calculate_decay_matrix_gaussian_irf", ("calculate_decay_matrix_gaussian_irf_on_index",)),
        "gaussian_backsweep": (gi, "calculate_decay_matrix_gaussian_irf", ("calculate_decay_matrix_gaussian_irf_on_index",)),
        "on_index": (gi, "calculate_decay_matrix_gaussian_irf_on_index", ()),
        "artifact": (ca, "_calculate_coherent_artifact_matrix", ("_calculate_coherent_artifact_matrix_on_index",)),
        "artifact_on_index": (ca, "_calculate_coherent_artifact_matrix_on_index", ()),
        "osc_no_irf": (do, "calculate_damped_oscillation_matrix_no_irf", ()),
    }[kernel]


KERNELS = ["no_irf", "gaussian", "gaussian_equal_rows", "gaussian_backsweep", "on_index", "artifact", "artifact_on_index", "osc_no_irf"]


def shapes():
    return list(itertools.product(range(1, 5), range(1, 5), range(1, 4), range(1, 4)))


def case_kernel(case):
    kernel, shape = case["kernel"], tuple(case["shape"])
    mod, name, inner = kernel_ref(kernel)
    r = prange.explore(mod, name, lambda: kernel_inputs(kernel, shape), [0], inner)
    vs = []
    if r["conflicts"]:
        vs.append(V("parallel-iterations-conflict", kernel=kernel, shape=list(shape), conflicts=r["conflicts"]))
    if vs:
        return core.ok(key=[kernel, list(shape)], outcome=[kernel, r["regions"], True, len(r["conflicts"])], violations=vs,
                       states=1, transitions=max(1, r["parallel_iterations"]), traces=0)  # fmt: skip
    # bind the analysed source to the compiled code (in a forked child: a nested parallel region can abort the process)
    def compiled(_):
        a = kernel_inputs(kernel, shape)
        getattr(mod, name)(*a)
        return a[0]

    status, comp = core.run_forked(compiled, None, 120)
    if status == "died":
        # numba's workqueue layer (used by the harness because it is fork-safe) aborts on nested parallel regions, which
        # the default layer supports: repeat in a fresh process with numba's default threading layer before judging
        env = dict(os.environ, NUMBA_THREADING_LAYER="default")
        code = ("import sys, json; sys.path.insert(0, %r); from vf.checks import c10_kernels as k; "
                "m, n, _ = k.kernel_ref(%r); a = k.kernel_inputs(%r, %r); getattr(m, n)(*a); print('OUT ' + json.dumps(a[0].tolist()))"
                % (str(core.ROOT), kernel, kernel, tuple(shape)))
        p = subprocess.run([sys.executable, "-c", code], env=env, capture_output=True, text=True, timeout=300)
        line = [l for l in p.stdout.splitlines() if l.startswith("OUT ")]
        if line:
            status, comp = "ok", np.array(json.loads(line[0][4:]))
        else:
            comp = (p.stderr or "")[-300:]
    if status != "ok":
        vs.append(V("compiled-kernel-did-not-return", kernel=kernel, shape=list(shape), status=status, info=str(comp)[:300]))
        return core.ok(key=[kernel, list(shape)], outcome=[kernel, "compiled-" + status], violations=vs, states=1, transitions=1, traces=0)
    py = r["outputs"][0]
    scale = max(1.0, float(np.abs(comp).max())) if comp.size else 1.0
    if not np.all(np.isfinite(comp)) or np.abs(py - comp).max() > 64 * np.finfo(float).eps * scale:
        vs.append(V("py_func-and-compiled-kernel-disagree", kernel=kernel, shape=list(shape),
                    max_abs=float(np.abs(py - comp).max())))  # fmt: skip
    return core.ok(key=[kernel, list(shape)] if r["parallel_iterations"] > 1 else None,
                   outcome=[kernel, r["regions"], r["parallel_iterations"] > 1, len(r["conflicts"])], violations=vs,
                   states=1, transitions=max(1, r["parallel_iterations"]), traces=1)  # fmt: skip


def sweep_shapes():
    if os.environ.get("VERIF_TIER_EFFECTIVE", "quick") == "quick":
        return list(itertools.product((1, 4), (1, 4), (1, 3), (1, 3)))
    return shapes()


def worker_main():
    """subprocess: run every compiled kernel on the sweep shapes (+ objective evaluations of builtin models) and
    print sha1 digests"""
    out = {}
    for kernel in KERNELS:
        mod, name, _ = kernel_ref(kernel)
        f = getattr(mod, name)
        h = hashlib.sha1()
        for shape in sweep_shapes():
            args = kernel_inputs(kernel, shape)
            f(*args)
            h.update(np.ascontiguousarray(args[0]).tobytes())
        out[kernel] = h.hexdigest()
    try:
        from vf.gen import builtin_models as B

        out["objective"] = B.objective_digest()
    except ImportError:
        pass
    print("KERNEL-DIGESTS " + json.dumps(out))


def run_threads(run: core.Run):
    counts = [1, 2, 16] if run.tier == "quick" else list(range(1, 17))
    procs = []
    for n in counts + [counts[-1]]:  # the last count is run twice (fresh-process repeatability)
        env = dict(os.environ, NUMBA_NUM_THREADS=str(n), OMP_WAIT_POLICY="PASSIVE", VERIF_TIER_EFFECTIVE=run.tier)
        env.pop("OPENBLAS_NUM_THREADS", None) if n == counts[-1] else None
        env["NUMBA_THREADING_LAYER"] = "default"  # the sweep runs numba's default threading layer
        procs.append((n, subprocess.Popen(
            [sys.executable, "-c", "import sys; sys.path.insert(0, %r); from vf.checks import c10_kernels as k; k.worker_main()" % str(core.ROOT)],
            env=env, stdout=subprocess.PIPE, stderr=subprocess.PIPE, text=True)))  # fmt: skip
    digests = []
    for n, p in procs:
        out, err = p.communicate(timeout=1200)
        line = [l for l in out.splitlines() if l.startswith("KERNEL-DIGESTS ")]
        if not line:
            raise RuntimeError(f"kernel worker with {n} threads failed: {err[-800:]}")
        digests.append((n, json.loads(line[0][len("KERNEL-DIGESTS "):])))
    base = digests[0][1]
    res = core.ok(key="thread-sweep", outcome=[n for n, _ in digests], violations=[], states=len(digests), transitions=len(digests), traces=len(digests))
    for n, d in digests[1:]:
        for k in base:
            if d.get(k) != base[k]:
                res["violations"].append(V("compiled-result-depends-on-thread-count-or-process", kernel=k, threads=n, base_threads=digests[0][0]))
    run.absorb("threads", {"thread_counts": [n for n, _ in digests]}, res, part="thread-sweep")
    run.extra["thread_counts_compared"] = [n for n, _ in digests]


def run_kernels(run: core.Run):
    cases = [{"kernel": k, "shape": list(s)} for k in KERNELS for s in shapes()]
    run.map("kernel", cases, part="prange-kernels")
    run_threads(run)
