"""C20 -- model validation is sound and complete for references.

E1 over programs: a set of base models that together use every builtin item type and every reference position
(scalar / list / dict, aliased attributes, nested items); for each base model: the clean model, every single reference
position misspelled in turn, every referenced model item removed in turn, every single parameter removed in turn,
pairs of faults inside one item, duplicated unique / combined exclusive megacomplexes and list-length mismatches.
The table of reference positions is written by hand here (it must not be derived with the code under test).
"""
from __future__ import annotations

import copy
import itertools
import warnings

import numpy as np

from vf import core
from vf.core import V
from vf.gen import builtin_models as B

LEVEL = "exploration"

# section -> field -> (kind, target section, structure);  kind "model" = label of another model item, "param" = parameter label
REFS = {
    "dataset": {
        "megacomplex": ("model", "megacomplex", "list"), "global_megacomplex": ("model", "megacomplex", "list"),
        "irf": ("model", "irf", "scalar"), "initial_concentration": ("model", "initial_concentration", "scalar"),
        "scale": ("param", None, "scalar"), "megacomplex_scale": ("param", None, "list"), "global_megacomplex_scale": ("param", None, "list"),
    },
    "megacomplex": {
        "k_matrix": ("model", "k_matrix", "list"), "shape": ("model", "shape", "dict"),
        "rates": ("param", None, "list"), "frequencies": ("param", None, "list"), "width": ("param", None, "scalar"),
    },
    "k_matrix": {"matrix": ("param", None, "dict")},
    "initial_concentration": {"parameters": ("param", None, "list")},
    "irf": {
        "center": ("param", None, "scalar_or_list"), "width": ("param", None, "scalar_or_list"), "scale": ("param", None, "list"),
        "shift": ("param", None, "list"), "backsweep_period": ("param", None, "scalar"), "dispersion_center": ("param", None, "scalar"),
        "center_dispersion_coefficients": ("param", None, "list"), "width_dispersion_coefficients": ("param", None, "list"),
    },
    "shape": {"amplitude": ("param", None, "scalar"), "location": ("param", None, "scalar"), "width": ("param", None, "scalar"),
              "skewness": ("param", None, "scalar")},  # fmt: skip
    "clp_relations": {"parameter": ("param", None, "scalar")},
    "clp_penalties": {"parameter": ("param", None, "scalar")},
}


def base_models():
    models = {}
    models["decay_full"] = {
        "megacomplex": {
            "m1": {"type": "decay", "k_matrix": ["km1", "km2"]},
            "m2": {"type": "coherent-artifact", "order": 2, "width": "ca.w"},
            "m3": {"type": "baseline", "dimension": "time"},
            "mg": {"type": "spectral", "shape": {"s1": "sh1", "s2": "sh2"}},
        },
        "k_matrix": {"km1": {"matrix": {"s2<-s1": "k.1", "s2<-s2": "k.2"}}, "km2": {"matrix": {"s1<-s1": "k.3"}}},
        "initial_concentration": {"j1": {"compartments": ["s1", "s2"], "parameters": ["j.1", "j.2"]}},
        "irf": {"irf1": {"type": "spectral-multi-gaussian", "center": ["irf.c"], "width": ["irf.w1", "irf.w2"], "scale": ["irf.s1", "irf.s2"],
                         "shift": ["irf.sh1", "irf.sh2", "irf.sh3"], "dispersion_center": "irf.dc", "center_dispersion_coefficients": ["irf.d1", "irf.d2"],
                         "width_dispersion_coefficients": ["irf.wd1"], "backsweep": True, "backsweep_period": "irf.bp"}},
        "shape": {"sh1": {"type": "gaussian", "amplitude": "sh.a", "location": "sh.l1", "width": "sh.w1"},
                  "sh2": {"type": "skewed-gaussian", "location": "sh.l2", "width": "sh.w2", "skewness": "sh.b"}},
        "dataset": {
            "d1": {"megacomplex": ["m1", "m2", "m3"], "megacomplex_scale": ["ms.1", "ms.2", "ms.3"], "irf": "irf1",
                   "initial_concentration": "j1", "scale": "ds.1"},
            "d2": {"megacomplex": ["m1"], "global_megacomplex": ["mg"], "global_megacomplex_scale": ["gs.1"], "initial_concentration": "j1"},
        },
        "clp_relations": [{"source": "s1", "target": "s2", "parameter": "rel.1", "interval": (1.0, 2.0)}],
        "clp_penalties": [{"type": "equal_area", "source": "s1", "source_intervals": [(1.0, 2.0)], "target": "s2",
                           "target_intervals": [(1.0, 3.0)], "parameter": "pen.1", "weight": 0.5}],
        "clp_constraints": [{"type": "zero", "target": "s1", "interval": [(1.0, 1.5)]}, {"type": "only", "target": "s2", "interval": (1.0, 3.0)}],
        "weights": [{"datasets": ["d1"], "global_interval": (1.0, 2.0), "value": 0.5}],
    }  # fmt: skip
    models["parallel_osc"] = {
        "megacomplex": {
            "p": {"type": "decay-parallel", "compartments": ["a", "b"], "rates": ["r.a", "r.b"]},
            "q": {"type": "decay-sequential", "compartments": ["c", "d"], "rates": ["r.c", "r.d"]},
            "o": {"type": "damped-oscillation", "labels": ["o1", "o2"], "frequencies": ["o.f1", "o.f2"], "rates": ["o.r1", "o.r2"]},
        },
        "irf": {"g": {"type": "gaussian", "center": "g.c", "width": "g.w"}},
        "dataset": {"d1": {"megacomplex": ["p", "q", "o"], "irf": "g"}, "d2": {"megacomplex": ["q"]}},
    }  # fmt: skip
    models["pfid"] = {
        "megacomplex": {"pf": {"type": "pfid", "labels": ["p1", "p2"], "frequencies": ["pf.f1", "pf.f2"], "rates": ["pf.r1", "pf.r2"]},
                        "pa": {"type": "decay-parallel", "compartments": ["x"], "rates": ["pf.k"]}},
        "irf": {"ig": {"type": "spectral-gaussian", "center": "ig.c", "width": "ig.w", "dispersion_center": "ig.dc",
                       "center_dispersion_coefficients": ["ig.d1"]}},
        "dataset": {"d1": {"megacomplex": ["pa", "pf"], "irf": "ig"}},
    }  # fmt: skip
    # parameter labels without any group prefix (list-style parameter files): "1", "2", "c", "w", "scale"
    models["flat_labels"] = {
        "megacomplex": {"p": {"type": "decay-parallel", "compartments": ["a", "b"], "rates": ["1", "2"]}},
        "irf": {"g": {"type": "gaussian", "center": "c", "width": "w"}},
        "dataset": {"d1": {"megacomplex": ["p"], "irf": "g", "scale": "scale"}},
    }  # fmt: skip
    models["spectral_model"] = {
        "megacomplex": {"sp": {"type": "spectral", "shape": {"u": "one1", "v": "g1"}}, "guide": {"type": "clp-guide", "dimension": "spectral", "target": "u"}},
        "shape": {"one1": {"type": "one"}, "g1": {"type": "gaussian", "location": "g1.l", "width": "g1.w"}},
        "dataset": {"d1": {"megacomplex": ["sp"]}, "dg": {"megacomplex": ["guide"]}},
    }  # fmt: skip
    return models


def positions(md):
    """all reference positions of a model dict: (section, item key/index, field, sub key/index or None, kind, target, label)"""
    out = []
    for section, fields in REFS.items():
        items = md.get(section)
        if not items:
            continue
        it = items.items() if isinstance(items, dict) else enumerate(items)
        for key, item in it:
            for field, (kind, target, structure) in fields.items():
                if field not in item or item[field] is None:
                    continue
                val = item[field]
                if isinstance(val, list):
                    for i, lab in enumerate(val):
                        out.append((section, key, field, i, kind, target, lab))
                elif isinstance(val, dict):
                    for k, lab in val.items():
                        out.append((section, key, field, k, kind, target, lab))
                else:
                    out.append((section, key, field, None, kind, target, val))
    return out


def set_position(md, pos, new):
    section, key, field, sub, *_ = pos
    item = md[section][key]
    if sub is None:
        item[field] = new
    else:
        item[field][sub] = new


def all_parameter_labels(md):
    return sorted({p[6] for p in positions(md) if p[4] == "param"})


def values_for(labels):
    vals = {}
    for i, l in enumerate(labels):
        vals[l] = 0.3 + 0.17 * i
    for l in vals:
        if "irf.w" in l or l.endswith(".w") or l.endswith(".w1") or l.endswith(".w2"):
            vals[l] = 0.2 + 0.01 * len(l)
        if l.startswith("pf.r"):
            vals[l] = -vals[l]  # PFID damping rates are negative (anti-causal)
    return vals


def issues_of(model, params):
    with warnings.catch_warnings():
        warnings.simplefilter("ignore")
        issues = model.get_issues(parameters=params)
        text = str(model.validate(params))
        valid = model.valid(params)
    return [i.to_string() for i in issues], text, valid


def expect(kind, target, label):
    if kind == "param":
        return f"Missing parameter with label '{label}'."
    return f"Missing model item '{target}' with label '{label}'."


def relabel(md0, style):
    """the same model with item labels that coincide across item kinds (labels live in one namespace per kind):
    style "numbers": the k-th item of every kind is called str(k); style "same": the first item of every kind "main" """
    md = copy.deepcopy(md0)
    maps = {}
    for section in ("megacomplex", "k_matrix", "initial_concentration", "irf", "shape"):
        items = md.get(section)
        if not items:
            continue
        maps[section] = {old: (str(k + 1) if style == "numbers" else ("main" if k == 0 else f"main{k}")) for k, old in enumerate(items)}
        md[section] = {maps[section][old]: v for old, v in items.items()}
    for pos in positions(md0):
        if pos[4] == "model":
            section, key = pos[0], pos[1]
            key = maps.get(section, {}).get(key, key) if isinstance(key, str) else key
            set_position(md, (section, key) + tuple(pos[2:]), maps[pos[5]][pos[6]])
    return md


def objective(base, model, params):
    from glotaran.optimization.optimizer import Optimizer
    from glotaran.project import Scheme

    t = np.concatenate([np.linspace(-0.5, 1, 16), np.array([2.0, 5.0, 12.0])])
    g = np.array([1.0, 2.0, 3.0])
    data = {}
    for label in model.dataset:
        if base == "spectral_model":
            import xarray as xr

            n = 1 if label == "dg" else g.size
            data[label] = xr.Dataset({"data": (("spectral", "time"), np.ones((n, 4)) + np.arange(4))}, coords={"spectral": g[:n], "time": [0.0, 1.0, 2.0, 3.0]})
        else:
            data[label] = B.noisy_dataset(t, g, seed=1, salt=label)
    scheme = Scheme(model=model, parameters=params, data=data, maximum_number_function_evaluations=1, add_svd=False)
    with warnings.catch_warnings():
        warnings.simplefilter("ignore")
        opt = Optimizer(scheme, verbose=False, raise_exception=True)
        lab, x, _, _ = params.get_label_value_and_bounds_arrays(exclude_non_vary=True)
        opt._free_parameter_labels = lab
        return np.asarray(opt.objective_function(x), dtype=float)


def case_relabel(case):
    """labels coinciding across item kinds: still valid, fillable, and evaluating to the same objective as the base model"""
    md0 = base_models()[case["base"]]
    md = relabel(md0, case["style"])
    vals = values_for(all_parameter_labels(md0))
    vs = []
    try:
        twin, base = B.make_model(md), B.make_model(md0)
        issues, text, valid = issues_of(twin, B.make_parameters(vals))
    except Exception as e:  # noqa: BLE001
        return core.ok(key=None, outcome="raised", violations=[V(f"validation-raised/{type(e).__name__}", style=case["style"], message=str(e)[:200])])
    if issues or not valid:
        vs.append(V("clean-model-reported-invalid", style=case["style"], issues=issues[:5]))
        return core.ok(key=[case["base"], case["style"]], outcome="invalid", violations=vs)
    want = objective(case["base"], base, B.make_parameters(vals))
    try:
        got = objective(case["base"], twin, B.make_parameters(vals))
    except Exception as e:  # noqa: BLE001
        vs.append(V("valid-model-with-labels-shared-across-kinds-cannot-be-evaluated", style=case["style"], exc=repr(e)[:200]))
        return core.ok(key=[case["base"], case["style"]], outcome="raised", violations=vs)
    if got.shape != want.shape or not np.array_equal(got, want):
        vs.append(V("model-with-labels-shared-across-kinds-evaluates-differently", style=case["style"],
                    max_abs=float(np.abs(got - want).max()) if got.shape == want.shape else None))  # fmt: skip
    return core.ok(key=[case["base"], case["style"]], outcome=len(vs), violations=vs)


def case_model(case):
    md0 = base_models()[case["base"]]
    if case.get("relabel"):  # the same mutations on the twin whose item labels coincide across item kinds
        md0 = relabel(md0, case["relabel"])
    md = copy.deepcopy(md0)
    labels = all_parameter_labels(md0)
    vals = values_for(labels)
    expected = []
    mut = case["mutation"]
    if mut["kind"] == "misspell":
        for idx in mut["positions"]:
            pos = positions(md0)[idx]
            new = f"{pos[6]}_undefined"
            set_position(md, pos, new)
            expected.append(expect(pos[4], pos[5], new))
    elif mut["kind"] == "truncate":
        # the reference names the *group* of the parameter (its label cut at the last dot): no parameter has that label
        pos = positions(md0)[mut["position"]]
        new = pos[6].rsplit(".", 1)[0]
        set_position(md, pos, new)
        expected.append(expect("param", None, new))
    elif mut["kind"] == "remove_item":
        section, key = mut["section"], mut["key"]
        del md[section][key]
        for pos in positions(md0):
            if pos[4] == "model" and pos[5] == section and pos[6] == key:
                expected.append(expect("model", section, key))
        # parameters only referenced by the removed item are simply unused now
    elif mut["kind"] == "remove_param":
        vals.pop(mut["label"])
        expected.append(expect("param", None, mut["label"]))
    vs = []
    try:
        model = B.make_model(md)
    except Exception as e:  # noqa: BLE001
        return core.ok(key=None, outcome="construct", violations=[V("model-construction-raised", mutation=mut, exc=repr(e)[:300])])
    params = B.make_parameters(vals)
    try:
        issues, text, valid = issues_of(model, params)
    except Exception as e:  # noqa: BLE001
        import traceback

        return core.ok(key=[case["base"], mut], outcome="raised",
                       violations=[V(f"validation-raised/{type(e).__name__}", mutation=mut, message=str(e)[:200], traceback=traceback.format_exc()[-800:])])  # fmt: skip
    if mut["kind"] == "clean":
        if issues or not valid or "Your model is valid." not in text:
            vs.append(V("clean-model-reported-invalid", issues=issues[:5]))
        else:
            vs += clean_model_usable(case["base"], model, md, params)
    else:
        if valid:
            vs.append(V("model-with-dangling-reference-reported-valid", mutation=mut, expected=expected))
        for e in sorted(set(expected)):
            if e not in issues:
                vs.append(V("dangling-reference-not-reported", mutation=mut, missing_issue=e, reported=issues[:6]))
            if e not in text:
                vs.append(V("dangling-reference-not-in-validate-text", mutation=mut, missing_issue=e))
        unexpected = [i for i in issues if i.startswith("Missing") and i not in expected]
        if unexpected:
            vs.append(V("spurious-missing-issue", mutation=mut, unexpected=unexpected[:5]))
    return core.ok(key=[case["base"], case.get("relabel"), mut], outcome=[len(issues), valid], violations=vs)


def clean_model_usable(base, model, md, params):
    """a model + parameters that validate can be filled and evaluated; generated parameters leave no missing-parameter issue"""
    from glotaran.model.item import fill_item
    from glotaran.optimization.optimizer import Optimizer
    from glotaran.project import Scheme

    vs = []
    # history: a fill of the same model object that fails (one parameter missing) comes first
    some = [p.label for p in params.all()]
    for drop in (some[0], some[-1]):
        incomplete = B.make_parameters({p.label: float(p.value) for p in params.all() if p.label != drop})
        for label in model.dataset:
            try:
                fill_item(model.dataset[label], model, incomplete)
            except Exception:  # noqa: BLE001, S110
                pass
    for label in model.dataset:
        try:
            filled = fill_item(model.dataset[label], model, params)
        except Exception as e:  # noqa: BLE001
            vs.append(V("valid-model-cannot-be-filled", dataset=label, exc=repr(e)[:200]))
            continue
        if any(isinstance(m, str) for m in filled.megacomplex):
            vs.append(V("fill-after-a-failed-fill-returns-unfilled-items", dataset=label))
    gen = model.generate_parameters()
    gi = [i.to_string() for i in model.get_issues(parameters=gen)]
    miss = [i for i in gi if i.startswith("Missing parameter")]
    if miss:
        vs.append(V("generated-parameters-leave-missing-parameter-issues", issues=miss[:5]))
    if sorted(p.label for p in gen.all()) != sorted(model.get_parameter_labels()):
        vs.append(V("generated-parameters-differ-from-parameter-labels"))
    want = set(all_parameter_labels(md))
    got = set(model.get_parameter_labels())
    if got != want:
        vs.append(V("get-parameter-labels-differs-from-reference-positions", missing=sorted(want - got), extra=sorted(got - want)))
    # one objective evaluation without lookup errors (datasets with the dimensions the megacomplexes expect)
    try:
        t = np.concatenate([np.linspace(-0.5, 1, 16), np.array([2.0, 5.0, 12.0])])
        g = np.array([1.0, 2.0, 3.0])
        data = {}
        for label in model.dataset:
            if base == "spectral_model":
                import xarray as xr

                n = 1 if label == "dg" else g.size
                data[label] = xr.Dataset({"data": (("spectral", "time"), np.ones((n, 4)) + np.arange(4))}, coords={"spectral": g[:n], "time": [0.0, 1.0, 2.0, 3.0]})
            else:
                data[label] = B.noisy_dataset(t, g, seed=1, salt=label)
        scheme = Scheme(model=model, parameters=params, data=data, maximum_number_function_evaluations=1, add_svd=False)
        if str(scheme.validate()) != str(model.validate(params)) or scheme.valid() != model.valid(params):
            vs.append(V("scheme-validate-disagrees-with-model-validate"))
        with warnings.catch_warnings():
            warnings.simplefilter("ignore")
            opt = Optimizer(scheme, verbose=False, raise_exception=True)
            lab, x, _, _ = params.get_label_value_and_bounds_arrays(exclude_non_vary=True)
            opt._free_parameter_labels = lab
            opt.objective_function(x)
    except (KeyError, LookupError) as e:
        vs.append(V("valid-model-evaluation-lookup-error", exc=repr(e)[:200]))
    except Exception as e:  # noqa: BLE001
        # all base models evaluate with the enumerated values (the relabelled twins compare their objectives)
        vs.append(V("valid-model-evaluation-lookup-error" if "ParameterNotFound" in type(e).__name__ else "valid-model-cannot-be-evaluated",
                    exc=repr(e)[:200]))  # fmt: skip
    return vs


def case_rules(case):
    """unique / exclusive megacomplexes, list-length validators"""
    md = copy.deepcopy(base_models()[case["base"]])
    kind = case["kind"]
    want_sub = None
    if kind == "unique_twice_different_labels":
        md["megacomplex"]["m3b"] = {"type": "baseline", "dimension": "time"}
        md["dataset"]["d1"]["megacomplex"] = case["order"]
        md["dataset"]["d1"]["megacomplex_scale"] = ["ms.1"] * len(case["order"])
        want_sub = "Unique megacomplex"
    elif kind == "unique_same_label_twice":
        md["dataset"]["d1"]["megacomplex"] = ["m1", "m3", "m3"]
        want_sub = "Unique megacomplex"
    elif kind == "unique_artifact_twice":
        md["megacomplex"]["m2b"] = {"type": "coherent-artifact", "order": 1}
        md["dataset"]["d1"]["megacomplex"] = ["m2", "m1", "m2b"]
        want_sub = "Unique megacomplex"
    elif kind == "exclusive_combined":
        md["megacomplex"]["guide2"] = {"type": "clp-guide", "dimension": "time", "target": "s1"}
        md["megacomplex"]["guide3"] = {"type": "clp-guide", "dimension": "time", "target": "s2"}
        md["dataset"]["d1"]["megacomplex"] = case["order"]
        md["dataset"]["d1"]["megacomplex_scale"] = ["ms.1"] * len(case["order"])
        want_sub = "Exclusive megacomplex"
    elif kind == "exclusive_global_combined":
        md["megacomplex"]["guide2"] = {"type": "clp-guide", "dimension": "spectral", "target": "s1"}
        md["dataset"]["d2"]["global_megacomplex"] = ["mg", "guide2"]
        md["dataset"]["d2"]["global_megacomplex_scale"] = ["gs.1", "gs.1"]
        want_sub = "Exclusive"
    elif kind == "oscillation_length":
        md["megacomplex"]["o"][case["field"]] = md["megacomplex"]["o"][case["field"]][:1]
        want_sub = "does not match for damped oscillation"
    elif kind == "pfid_length":
        md["megacomplex"]["pf"][case["field"]] = md["megacomplex"]["pf"][case["field"]][:1]
        want_sub = "does not match"
    labels = all_parameter_labels(md)
    model = B.make_model(md)
    params = B.make_parameters(values_for(labels))
    try:
        issues, text, valid = issues_of(model, params)
    except Exception as e:  # noqa: BLE001
        return core.ok(key=[case], outcome="raised", violations=[V(f"validation-raised/{type(e).__name__}", case=case, message=str(e)[:200])])
    vs = []
    if valid or not any(want_sub in i for i in issues):
        vs.append(V("rule-violation-not-reported", kind=kind, case=case, issues=issues[:5]))
    return core.ok(key=[case], outcome=[len(issues), valid], violations=vs)


CASE_FUNCS = {"model": case_model, "rules": case_rules, "relabel": case_relabel}


def run(run: core.Run):
    quick = run.tier == "quick"
    cases = []
    for base, md in base_models().items():
        cases.append({"base": base, "mutation": {"kind": "clean"}})
        pos = positions(md)
        for i in range(len(pos)):
            cases.append({"base": base, "mutation": {"kind": "misspell", "positions": [i]}})
        # two faults inside one item (a model reference and a parameter reference, or two of a kind)
        by_item: dict = {}
        for i, p in enumerate(pos):
            by_item.setdefault((p[0], str(p[1])), []).append(i)
        for idxs in by_item.values():
            pairs = list(itertools.combinations(idxs, 2))
            if quick:
                pairs = [pr for pr in pairs if pos[pr[0]][4] != pos[pr[1]][4]] + pairs[:2]
            for a, b in pairs:
                cases.append({"base": base, "mutation": {"kind": "misspell", "positions": [a, b]}})
        for section in ("megacomplex", "irf", "initial_concentration", "k_matrix", "shape"):
            for key in md.get(section, {}):
                if any(p[4] == "model" and p[5] == section and p[6] == key for p in pos):
                    cases.append({"base": base, "mutation": {"kind": "remove_item", "section": section, "key": key}})
        for lab in all_parameter_labels(md):
            cases.append({"base": base, "mutation": {"kind": "remove_param", "label": lab}})
        for i, ps in enumerate(pos):
            if ps[4] == "param" and "." in str(ps[6]):
                cases.append({"base": base, "mutation": {"kind": "truncate", "position": i}})
    for base, md in base_models().items():
        for style in ("numbers", "same"):
            mdr = relabel(md, style)
            posr = positions(mdr)
            for i, ps in enumerate(posr):
                if ps[4] == "model":
                    cases.append({"base": base, "relabel": style, "mutation": {"kind": "misspell", "positions": [i]}})
            for section in ("megacomplex", "irf", "initial_concentration", "k_matrix", "shape"):
                for key in mdr.get(section, {}):
                    if any(p[4] == "model" and p[5] == section and p[6] == key for p in posr):
                        cases.append({"base": base, "relabel": style, "mutation": {"kind": "remove_item", "section": section, "key": key}})
    run.map("model", cases)
    rules = []
    for order in itertools.permutations(["m1", "m3", "m3b"]):
        rules.append({"base": "decay_full", "kind": "unique_twice_different_labels", "order": list(order)})
    rules.append({"base": "decay_full", "kind": "unique_same_label_twice"})
    rules.append({"base": "decay_full", "kind": "unique_artifact_twice"})
    # an exclusive megacomplex next to other types, next to another megacomplex of its own type, and listed twice
    for order in (["m1", "guide2"], ["guide2", "m1"], ["m1", "m3", "guide2"], ["guide2", "guide3"], ["guide3", "guide2"], ["guide2", "guide2"]):
        rules.append({"base": "decay_full", "kind": "exclusive_combined", "order": order})
    rules.append({"base": "decay_full", "kind": "exclusive_global_combined"})
    for f in ("labels", "frequencies", "rates"):
        rules.append({"base": "parallel_osc", "kind": "oscillation_length", "field": f})
        rules.append({"base": "pfid", "kind": "pfid_length", "field": f})
    run.map("rules", rules)
    run.map("relabel", [{"base": b, "style": st} for b in base_models() for st in ("numbers", "same")])
    run.bounds = {"base_models": list(base_models()), "reference_positions": {b: len(positions(m)) for b, m in base_models().items()},
                  "mutations": ["clean", "misspell each position", "pairs of faults in one item", "remove each referenced item", "remove each parameter",
                                "labels coinciding across item kinds (differential objective)"]}  # fmt: skip
    run.rule = (
        "for each base model (together covering every builtin item type and reference position): the clean model (valid, "
        "fillable, evaluable, generated parameters complete, Scheme.validate agrees), every reference position misspelled in "
        "turn, pairs of faults within one item, every referenced item removed, every parameter removed; validation must not "
        "raise and must name every dangling label; unique/exclusive/list-length rules. distinct_nontrivial = distinct mutants"
    )
    run.assumptions = ["reference positions are listed by hand in the check (REFS)"]
