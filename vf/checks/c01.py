"""C01 -- the linear sub-problem is solved optimally (variable projection and NNLS).

E1: finite families of matrices (kinetic with near-collinear rates, IRF-convolved decays from the real kernel,
damped cos/sin pairs, synthetic U S V^T with prescribed condition number, degenerate shapes) x data vectors
(in range, orthogonal to range, generic, zero, huge/tiny scale) x both residual functions, called directly and
through EstimationProvider.calculate_residual.  Oracle = optimality certificate per instance: orthogonality of
the residual (VP) / Karush-Kuhn-Tucker conditions (NNLS), residual == data - matrix @ clp, optimal value against
numpy lstsq / brute force over support sets.
"""
from __future__ import annotations

import itertools

import numpy as np

from vf import core
from vf.core import V

LEVEL = "exploration"

EPS = np.finfo(float).eps
LADDER = [1e-3, 1e-2, 0.1, 0.1 * (1 + 1e-2), 0.1 * (1 + 1e-4), 1.0, 1.0 * (1 + 1e-6), 10.0, 100.0]


def times(m):
    if m <= 12:
        return np.linspace(0.0, 4.0, m)
    return np.concatenate([np.linspace(0, 1, m // 2, endpoint=False), np.geomspace(1, 200, m - m // 2)])


def build_matrix(spec):
    fam = spec["family"]
    m = spec["m"]
    if fam == "kinetic":
        t = times(m)
        return np.column_stack([np.exp(-k * t) for k in spec["rates"]])
    if fam == "irf":
        from glotaran.builtin.megacomplexes.decay.decay_matrix_gaussian_irf import calculate_decay_matrix_gaussian_irf_on_index

        t = times(m) - 0.5
        rates = np.asarray(spec["rates"], dtype=float)
        M = np.zeros((m, rates.size))
        calculate_decay_matrix_gaussian_irf_on_index(M, rates, t, np.array([0.1]), np.array([0.15]), np.array([1.0]), False, 1.0)
        return M
    if fam == "osc":
        t = times(m)
        cols = []
        for f, g in spec["osc"]:
            cols += [np.exp(-g * t) * np.cos(f * t), np.exp(-g * t) * np.sin(f * t)]
        return np.column_stack(cols)
    if fam == "svd":
        n = spec["n"]
        r = core.rng(0, "svd", m, n, spec["cond"])
        U, _ = np.linalg.qr(r.standard_normal((m, n)))
        Vm, _ = np.linalg.qr(r.standard_normal((n, n)))
        s = np.geomspace(1.0, 1.0 / spec["cond"], n) if n > 1 else np.array([1.0])
        return (U * s) @ Vm.T
    if fam == "scaled":
        t = times(m)
        A = np.column_stack([np.exp(-k * t) for k in spec["rates"]])
        A[:, spec["col"]] *= spec["factor"]
        return A
    raise AssertionError(fam)


def data_vectors(A, spec, seed):
    m, n = A.shape
    out = []
    if n <= 4:
        for c in itertools.product((-1.0, 0.0, 1.0), repeat=n):
            if any(c):
                out.append(("range" + "".join("-0+"[int(x) + 1] for x in c), A @ np.array(c)))
    else:
        out.append(("range-ones", A @ np.ones(n)))
        out.append(("range-alt", A @ np.array([(-1.0) ** i for i in range(n)])))
        out.append(("range-unit", A[:, 0].copy()))
    g = core.det_noise(m, 1, "c01", m, n) + 0.3
    out.append(("generic", g))
    out.append(("generic-seeded", core.det_noise(m, seed, "c01-seeded", m, n)))
    if m > n:
        q, _ = np.linalg.qr(A)
        out.append(("orthogonal", g - q @ (q.T @ g)))
    out.append(("zero", np.zeros(m)))
    scaled = []
    for name, y in out:
        if name in ("generic", "range" + "+" * n, "range-ones", "orthogonal"):
            for sc in (1e-150, 1e-12, 1e150):
                scaled.append((f"{name}*{sc:g}", y * sc))
    return out + scaled


def norm(x):
    return float(np.linalg.norm(x))


def check_vp(A, y, clp, r, cond, tag):
    vs = []
    m, n = A.shape
    ny = norm(y)
    nA = norm(A)
    if clp.shape != (n,) or r.shape != (m,):
        return [V("vp-output-shape", clp=list(clp.shape), residual=list(r.shape))]
    if not (np.all(np.isfinite(clp)) and np.all(np.isfinite(r))):
        return [V("vp-non-finite-output", tag=tag)]
    # backward-error scale of a Householder-QR least-squares solve: eps * (|A| |x| + |y|)
    scale = nA * norm(clp) + ny
    for j in range(n):
        tau = 100 * m * n * EPS * norm(A[:, j]) * scale + 1e-300
        if abs(float(A[:, j] @ r)) > tau:
            vs.append(V("vp-residual-not-orthogonal-to-column", column=j, dot=float(A[:, j] @ r), tol=tau, tag=tag, cond=cond))
            break
    tau = 100 * m * n * EPS * scale + 1e-300
    d = norm(r - (y - A @ clp))
    if d > tau:
        vs.append(V("vp-residual-is-not-data-minus-matrix-times-clp", diff=d, tol=tau, tag=tag, cond=cond))
    ref, *_ = np.linalg.lstsq(A, y, rcond=None)
    rr = norm(y - A @ ref)
    if abs(norm(r) - rr) > 100 * m * n * EPS * (scale + nA * norm(ref)):
        vs.append(V("vp-residual-norm-differs-from-lstsq", got=norm(r), want=rr, tag=tag, cond=cond))
    del nA
    return vs


def brute_nnls_value(A, y):
    n = A.shape[1]
    best = None
    for k in range(n + 1):
        for S in itertools.combinations(range(n), k):
            c = np.zeros(n)
            if S:
                cs, *_ = np.linalg.lstsq(A[:, S], y, rcond=None)
                if np.any(cs < 0):
                    continue
                c[list(S)] = cs
            v = norm(y - A @ c)
            best = v if best is None else min(best, v)
    return best


def check_nnls(A, y, x, r, cond, tag):
    vs = []
    m, n = A.shape
    ny, nA = norm(y), norm(A)
    if x.shape != (n,) or r.shape != (m,):
        return [V("nnls-output-shape")]
    if not (np.all(np.isfinite(x)) and np.all(np.isfinite(r))):
        return [V("nnls-non-finite-output", tag=tag)]
    if np.any(x < 0):
        vs.append(V("nnls-negative-clp", min=float(x.min()), tag=tag))
    d = norm(r - (y - A @ x))
    if d > 100 * m * n * EPS * (nA * norm(x) + ny) + 1e-300:
        vs.append(V("nnls-residual-is-not-data-minus-matrix-times-clp", diff=d, tag=tag))
    # KKT for the convex problem; the solver works on the normal equations (accuracy ~ cond^2 * eps)
    w = A.T @ (y - A @ x)
    amp = max(1.0, cond)
    for j in range(n):
        tau = 1e2 * m * n * EPS * norm(A[:, j]) * (nA * norm(x) + ny) * amp + 1e-300
        if w[j] > tau:
            vs.append(V("nnls-kkt-gradient-positive-at-inactive-clp", column=j, gradient=float(w[j]), tol=tau, tag=tag, cond=cond,
                        scale=ny))  # fmt: skip
            break
        if x[j] > 0 and abs(w[j]) * 1.0 > tau * max(1.0, 1.0):
            vs.append(V("nnls-kkt-complementarity", column=j, clp=float(x[j]), gradient=float(w[j]), tol=tau, tag=tag, cond=cond))
            break
    if n <= 6 and cond < 1e6:
        best = brute_nnls_value(A, y)
        if norm(r) > best + 1e2 * m * n * EPS * (nA * norm(x) + ny) * max(1.0, cond) + 1e-300:
            vs.append(V("nnls-not-the-minimum-over-all-support-sets", got=norm(r), best=best, tag=tag, cond=cond))
    return vs


def preservation(A, y, clp, r, cond, tag):
    """callers hand the same matrix to every global index: the kernels must leave their inputs as they were,
    whatever the memory layout (a one-column matrix is both C- and Fortran-contiguous)"""
    from glotaran.optimization.nnls import residual_nnls
    from glotaran.optimization.variable_projection import residual_variable_projection

    m, n = A.shape
    out = []
    for order in ("C", "F"):
        Ain, yin = np.array(A, order=order), y.copy()
        for fname, f in (("variable_projection", residual_variable_projection), ("non_negative_least_squares", residual_nnls)):
            try:
                _, r2 = f(Ain, yin)
            except (RuntimeError, np.linalg.LinAlgError):
                continue
            if not (np.array_equal(Ain, A) and np.array_equal(yin, y)):
                out.append((fname, V("kernel-modified-its-input", layout=order, tag=tag)))
                Ain, yin = np.array(A, order=order), y.copy()
            if fname == "variable_projection" and order == "F":
                if norm(np.asarray(r2) - r) > 100 * m * n * EPS * (norm(A) * norm(clp) + norm(y)) * max(1.0, cond) + 1e-300:
                    out.append((fname, V("vp-result-depends-on-memory-layout", tag=tag)))
    return out


def case_matrix(case):
    from glotaran.optimization.nnls import residual_nnls
    from glotaran.optimization.variable_projection import residual_variable_projection

    A = build_matrix(case)
    m, n = A.shape
    sv = np.linalg.svd(A, compute_uv=False)
    if not np.all(np.isfinite(A)) or sv.min() <= 0:
        return core.ood("rank-deficient")
    cond = float(sv.max() / sv.min())
    if cond > 1e10:
        return core.ood("cond>1e10")
    vs = []
    n_inst = 0
    nnls_maxiter = 0
    for tag, y in data_vectors(A, case, case.get("seed", 0)):
        n_inst += 2
        clp, r = residual_variable_projection(A.copy(), y.copy())
        for v in check_vp(A, y, np.asarray(clp), np.asarray(r), cond, tag):
            vs.append(dict(v, func="instance", case=dict(case, data=tag, function="variable_projection")))
        if "*" not in tag and (tag in ("generic", "generic-seeded") or tag.startswith("range")):
            # data as detectors deliver it - single precision or integer counts: the problem is the one for the same
            # numbers in double precision
            for dt in (np.float32, np.int64):
                yt = (y * (1000.0 if dt is np.int64 else 1.0)).astype(dt)
                y64 = yt.astype(np.float64)
                for fname, f, chk in (("variable_projection", residual_variable_projection, check_vp), ("non_negative_least_squares", residual_nnls, check_nnls)):
                    try:
                        c_t, r_t = f(A.copy(), yt.copy())
                    except (RuntimeError, np.linalg.LinAlgError):
                        continue
                    for v in chk(A, y64, np.asarray(c_t, dtype=float), np.asarray(r_t, dtype=float), cond, f"{tag}/{dt.__name__}"):
                        vs.append(dict(v, signature=v["signature"] + "/data-dtype", func="instance",
                                       case=dict(case, data=tag, function=fname, dtype=dt.__name__)))  # fmt: skip
        for fname, v in preservation(A, y, np.asarray(clp), np.asarray(r), cond, tag):
            vs.append(dict(v, func="instance", case=dict(case, data=tag, function=fname)))
        try:
            x, r2 = residual_nnls(A.copy(), y.copy())
        except (RuntimeError, np.linalg.LinAlgError) as e:
            if "Maximum number of iterations" in str(e) or "singular" in str(e).lower():
                nnls_maxiter += 1  # SciPy's normal-equation active-set solver gave up: counted separately
                continue
            raise
        for v in check_nnls(A, y, np.asarray(x), np.asarray(r2), cond, tag):
            vs.append(dict(v, func="instance", case=dict(case, data=tag, function="non_negative_least_squares")))
    key = {k: v for k, v in case.items() if k != "seed"}
    return core.ok(key=key, outcome=[round(np.log10(cond)), len(vs)], violations=vs, instances=n_inst,
                   payload={"instances": n_inst, "cond": cond, "nnls_maxiter": nnls_maxiter})  # fmt: skip


def case_instance(case):
    from glotaran.optimization.nnls import residual_nnls
    from glotaran.optimization.variable_projection import residual_variable_projection

    A = build_matrix(case)
    sv = np.linalg.svd(A, compute_uv=False)
    cond = float(sv.max() / sv.min())
    y = dict(data_vectors(A, case, case.get("seed", 0)))[case["data"]]
    if case.get("dtype"):
        dt = {"float32": np.float32, "int64": np.int64}[case["dtype"]]
        yt = (y * (1000.0 if dt is np.int64 else 1.0)).astype(dt)
        f, chk = (residual_variable_projection, check_vp) if case["function"] == "variable_projection" else (residual_nnls, check_nnls)
        c_t, r_t = f(A.copy(), yt.copy())
        vs = chk(A, yt.astype(np.float64), np.asarray(c_t, dtype=float), np.asarray(r_t, dtype=float), cond, case["data"])
        return core.ok(key=None, outcome=len(vs), violations=[dict(v, signature=v["signature"] + "/data-dtype") for v in vs])
    if case["function"] == "variable_projection":
        clp, r = residual_variable_projection(A.copy(), y.copy())
        vs = check_vp(A, y, np.asarray(clp), np.asarray(r), cond, case["data"])
        vs += [v for f, v in preservation(A, y, np.asarray(clp), np.asarray(r), cond, case["data"]) if f == case["function"]]
    else:
        x, r = residual_nnls(A.copy(), y.copy())
        vs = check_nnls(A, y, np.asarray(x), np.asarray(r), cond, case["data"])
        c0, r0 = residual_variable_projection(A.copy(), y.copy())
        vs += [v for f, v in preservation(A, y, np.asarray(c0), np.asarray(r0), cond, case["data"]) if f == case["function"]]
    return core.ok(key=None, outcome=len(vs), violations=vs)


def case_dispatch(case):
    """EstimationProvider.calculate_residual dispatches on the group's residual function"""
    from glotaran.optimization.estimation_provider import EstimationProvider
    from glotaran.optimization.nnls import residual_nnls
    from glotaran.optimization.variable_projection import residual_variable_projection
    from vf.gen import schemes as S

    mcs = {"m1": S.mc_model(["s1", "s2"])}
    spec = S.base_spec([S.dataset("d1", [1, 2, 3])], mcs)
    spec["groups"]["default"]["residual_function"] = case["function"]
    scheme = S.build_scheme(spec)
    group = list(scheme.model.get_dataset_groups().values())[0]
    ep = EstimationProvider(group)
    A = build_matrix({"family": "kinetic", "m": 12, "rates": case.get("rates", [0.1, 1.0, 10.0])})
    y = -A[:, 0] + (0.5 * A[:, 1] if A.shape[1] > 1 else 0.0) + 0.3 * core.det_noise(12, 3, "dispatch")
    got = ep.calculate_residual(A.copy(), y.copy())
    want = (residual_nnls if case["function"] == "non_negative_least_squares" else residual_variable_projection)(A.copy(), y.copy())
    other = (residual_variable_projection if case["function"] == "non_negative_least_squares" else residual_nnls)(A.copy(), y.copy())
    vs = []
    if not (np.array_equal(got[0], want[0]) and np.array_equal(got[1], want[1])):
        vs.append(V("calculate-residual-does-not-dispatch-to-selected-function", function=case["function"]))
    if np.allclose(want[1], other[1]):
        vs.append(V("harness-dispatch-instance-does-not-discriminate"))
    sv = np.linalg.svd(A, compute_uv=False)
    cond = float(sv.max() / sv.min())
    chk = check_nnls if case["function"] == "non_negative_least_squares" else check_vp
    vs += chk(A, y, np.asarray(got[0]), np.asarray(got[1]), cond, "dispatch")
    return core.ok(key=[case["function"], case.get("rates")], outcome=len(vs), violations=vs)


CASE_FUNCS = {"matrix": case_matrix, "instance": case_instance, "dispatch": case_dispatch}


def run(run: core.Run):
    quick = run.tier == "quick"
    N = 4 if quick else 6
    ms = lambda n: sorted({n, n + 1, 2 * n + 1, 40} | (set() if quick else {300}))  # noqa: E731
    cases = []
    ladder = LADDER if not quick else LADDER[:8]
    for n in range(1, N + 1):
        for rates in itertools.combinations(ladder, n):
            for m in ms(n):
                cases.append({"family": "kinetic", "rates": list(rates), "m": m, "seed": run.seed})
            if n <= 3:
                cases.append({"family": "irf", "rates": list(rates), "m": 40, "seed": run.seed})
    oscs = [(0.5, 0.0), (0.5, 0.1), (0.5 * (1 + 1e-3), 0.1), (3.0, 0.5), (11.0, 0.02)]
    for k in range(1, 4 if quick else 5):
        for combo in itertools.combinations(oscs, k):
            for m in (2 * k, 2 * k + 1, 40):
                cases.append({"family": "osc", "osc": [list(c) for c in combo], "m": m, "seed": run.seed})
    for n in (1, 2, 3, 5, 8):
        for cond in (1, 1e2, 1e5, 1e8, 1e10):
            for m in ms(n):
                cases.append({"family": "svd", "n": n, "cond": cond, "m": m, "seed": run.seed})
    for col in (0, 1):
        for factor in (1e100, 1e-100, 1e8, 1e-8, -1.0, -1e-8, -3e5):  # negative: an entirely negative column (a bleach)
            for m in (2, 3, 40):
                cases.append({"family": "scaled", "rates": [0.1, 1.0], "col": col, "factor": factor, "m": m, "seed": run.seed})
                if factor < 0:
                    cases.append({"family": "scaled", "rates": [0.1, 1.0, 7.0], "col": col, "factor": factor, "m": m + 2, "seed": run.seed})
    run.map("matrix", cases)
    run.map("dispatch", [{"function": f, "rates": r} for f in ("variable_projection", "non_negative_least_squares")
                         for r in ([0.1], [10.0], [0.1, 1.0], [0.1, 1.0, 10.0], [0.1, 0.11, 1.0, 10.0])])  # fmt: skip
    inst = sum(p["instances"] for _, p in run.payloads.get("matrix", []))
    run.evaluations += inst
    run.extra["linear_problems_certified"] = inst
    run.extra["scipy_nnls_gave_up_out_of_domain_instances"] = sum(p["nnls_maxiter"] for _, p in run.payloads.get("matrix", []))
    run.bounds = {"max_columns": 8, "rows": "n, n+1, 2n+1, 40" + ("" if quick else ", 300"), "rate_ladder": ladder,
                  "condition_numbers": "1 .. 1e10 (admitted by computed cond)", "data_scales": [1e-150, 1e-12, 1, 1e150]}  # fmt: skip
    run.rule = (
        "every n-subset of the rate ladder (incl. near-collinear neighbours) x row counts, IRF-convolved columns from the "
        "real kernel, damped cos/sin pairs, U S V^T with prescribed cond, badly scaled columns; per matrix all sign "
        "patterns of coefficients / orthogonal / generic / zero / rescaled data; both residual functions; optimality "
        "certificate per instance (orthogonality / KKT + brute force over support sets). distinct_nontrivial = "
        "distinct admitted matrices (full rank, cond <= 1e10)"
    )
    run.assumptions = ["tolerances are backward-error shaped (QR: m n eps |a_j| |y|; NNLS on normal equations: x cond^2 eps)"]
