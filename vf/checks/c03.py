"""C03 -- result datasets decompose the data exactly and on the right coordinates.

E1 over the scheme feature space (plus label sets whose names are substrings of one another, square and
non-square data, both layouts, linked groups with single-dataset indices, full models with scale).
Oracle: identities on optimize(scheme).data[label] and agreement with the independent reference.
"""
from __future__ import annotations

import warnings

import numpy as np

from vf import core
from vf.core import V
from vf.gen import features as F
from vf.gen import schemes as S

LEVEL = "exploration"


def run_optimize(spec, **kw):
    from glotaran.optimization.optimize import optimize

    kw.setdefault("maximum_number_function_evaluations", 2)  # the parameters must move away from their start values
    scheme = S.build_scheme(spec, **kw)
    with warnings.catch_warnings(record=True) as w:
        warnings.simplefilter("always")
        result = optimize(scheme, verbose=False, raise_exception=True)
    return scheme, result, [str(x.message) for x in w]


def close(a, b, tol):
    a, b = np.asarray(a, dtype=float), np.asarray(b, dtype=float)
    return a.shape == b.shape and bool(np.all(np.abs(a - b) <= tol))


def check_dataset(spec, d, rd, ref_d, tol, x_eff):
    """all C03 identities for one result dataset; x_eff = the (aligned) global values items are evaluated at"""
    vs = []
    lab = d["label"]
    gdim = d.get("global_dim", "spectral")
    t = np.asarray(d["model_axis"], dtype=float)
    g = np.asarray(d["global_axis"], dtype=float)

    def arr(name):
        da = rd[name]
        return da.transpose("time", gdim).values if set(da.dims) == {"time", gdim} else da.values

    for name in ("data", "fitted_data", "residual"):
        if name not in rd:
            return [V("missing-result-variable", dataset=lab, variable=name)]
    # coordinates are the dataset's own
    for name in ("data", "fitted_data", "residual", "weighted_residual", "weight", "matrix", "clp"):
        if name not in rd:
            continue
        da = rd[name]
        for dim, axis in (("time", t), (gdim, g)):
            if dim in da.dims and not np.array_equal(np.asarray(da.coords[dim].values, dtype=float), axis):
                vs.append(V("result-variable-on-wrong-coordinates", dataset=lab, variable=name, dim=dim,
                            got=da.coords[dim].values, want=axis))  # fmt: skip
    if vs:
        return vs
    data, fitted, resid = arr("data"), arr("fitted_data"), arr("residual")
    scale_data = max(1.0, float(np.abs(data).max()))
    if not close(data, ref_d["data"], 0):
        vs.append(V("result-data-differs-from-input", dataset=lab))
    if not close(data, fitted + resid, 8 * np.finfo(float).eps * scale_data):
        vs.append(V("data-not-fitted-plus-residual", dataset=lab))
    # residual against the independent reference (ties layout to coordinates)
    if not close(resid, ref_d["residual"], tol):
        bad = np.abs(resid - ref_d["residual"]) if resid.shape == ref_d["residual"].shape else None
        vs.append(V("residual-differs-from-reference", dataset=lab, shape=list(resid.shape),
                    max_abs=None if bad is None else float(bad.max()), full_model=ref_d["full"]))  # fmt: skip
    # weights
    if ref_d["weight"] is not None:
        if "weighted_residual" not in rd or "weight" not in rd:
            vs.append(V("missing-weighted-residual-or-weight", dataset=lab))
        else:
            w = arr("weight")
            if not close(w, ref_d["weight"], 1e-15):
                vs.append(V("weight-array-wrong-layout-or-values", dataset=lab, layout=d["layout"],
                            square=bool(t.size == g.size)))  # fmt: skip
            elif not close(arr("weighted_residual"), w * resid, 16 * np.finfo(float).eps * scale_data):
                vs.append(V("weighted-residual-not-weight-times-residual", dataset=lab))
    elif "weighted_residual" in rd and not close(arr("weighted_residual"), resid, 0):
        vs.append(V("weighted-residual-without-weight-differs", dataset=lab))
    # labels and clps
    labels = [str(x) for x in rd["matrix"].coords["clp_label"].values]
    if sorted(labels) != sorted(ref_d["labels"]) or len(set(labels)) != len(labels):
        vs.append(V("matrix-label-set", dataset=lab, got=labels, want=ref_d["labels"]))
        return vs
    if labels != ref_d["labels"]:
        # the order of labels is not part of the statement (only that every array follows its labels):
        # bring the reference into the reported order
        perm = [ref_d["labels"].index(l) for l in labels]
        ref_d = dict(ref_d, labels=labels)
        if ref_d["full"]:
            ref_d["clp"] = ref_d["clp"][:, perm]
        else:
            ref_d["clp"] = ref_d["clp"][:, perm]
            ref_d["matrices"] = [m[:, perm] for m in ref_d["matrices"]]
    scale_attr = float(rd.attrs.get("dataset_scale", 1))
    if abs(scale_attr - ref_d["scale"]) > 1e-15:
        vs.append(V("dataset-scale-attribute", dataset=lab, got=scale_attr, want=ref_d["scale"]))
    clp = rd["clp"]
    M = rd["matrix"]
    if ref_d["full"]:
        glabels = [str(x) for x in rd["global_matrix"].coords["global_clp_label"].values]
        if glabels != ref_d["global_labels"]:
            vs.append(V("global-matrix-label-order", dataset=lab, got=glabels, want=ref_d["global_labels"]))
            return vs
        C = clp.transpose("global_clp_label", "clp_label").values
        G = rd["global_matrix"].transpose(gdim, "global_clp_label").values
        if "time" in M.dims and gdim in M.dims:
            Mi = M.transpose(gdim, "time", "clp_label").values
            recon = np.stack([Mi[i] @ C.T @ G[i] for i in range(g.size)], axis=1)
        else:
            recon = M.transpose("time", "clp_label").values @ C.T @ G.T
        recon = scale_attr * recon
        if not close(fitted, recon, tol * 10):
            vs.append(V("fitted-data-not-scale-matrix-clp-globalmatrix", dataset=lab, scale=scale_attr,
                        max_abs=float(np.abs(fitted - recon).max())))  # fmt: skip
        if not close(C, ref_d["clp"] / 1.0, tol * 10) and not vs:
            vs.append(V("full-model-clp-differs-from-reference", dataset=lab))
        return vs
    C = clp.transpose(gdim, "clp_label").values
    if [str(x) for x in clp.coords["clp_label"].values] != labels:
        vs.append(V("clp-label-order-differs-from-matrix", dataset=lab))
        return vs
    if gdim in M.dims:
        Mi = M.transpose(gdim, "time", "clp_label").values
    else:
        Mi = np.broadcast_to(M.transpose("time", "clp_label").values, (g.size, t.size, len(labels)))
    recon = np.stack([scale_attr * (Mi[i] @ C[i]) for i in range(g.size)], axis=1)
    if not close(fitted, recon, tol * 10):
        bad = np.abs(fitted - recon).max(axis=0)
        vs.append(V("fitted-data-not-scale-matrix-clp", dataset=lab, scale=scale_attr,
                    bad_global_indices=[int(i) for i in np.nonzero(bad > tol * 10)[0]]))  # fmt: skip
    for i in range(g.size):
        if not close(Mi[i], ref_d["matrices"][i], 1e-13):
            vs.append(V("matrix-differs-from-reference", dataset=lab, index=i))
            break
    if not close(C, ref_d["clp"], tol * 10) and not vs:
        vs.append(V("clp-differs-from-reference", dataset=lab, max_abs=float(np.abs(C - ref_d["clp"]).max())))
    # exact zeros / exact relations
    for c in spec["constraints"]:
        if c["target"] not in labels:
            continue
        k = labels.index(c["target"])
        for i, x in enumerate(x_eff):
            inside = S.interval_applies(c.get("interval"), x)
            applies = inside if c["type"] == "zero" else (c.get("interval") is not None and not inside)
            # a relation that defines the same clp on this index takes precedence (the statement does not
            # say which of two contradictory items wins, so that combination is not judged)
            overruled = any(
                r["target"] == c["target"] and S.interval_applies(r.get("interval"), x)  # (the source may live in a linked dataset)
                for r in spec["relations"]
            )
            if applies and not overruled and C[i, k] != 0.0:
                vs.append(V("constrained-clp-not-exactly-zero", dataset=lab, target=c["target"], x=float(x), got=float(C[i, k])))
                break
    return vs


def case_result(case):
    spec = F.make_spec(case["opts"], variant=0, seed=case.get("seed", 0))
    if spec is None:
        return core.ood("invalid-combination")
    try:
        S.reference(spec, 0)
    except S.OutOfDomain as e:
        return core.ood(e.reason)
    ref0 = S.reference(spec, 0)
    n_free = sum(1 for _, _, vary in S.parameter_table(spec) if vary)
    if ref0["penalty"].size - n_free - ref0["number_of_clps"] <= 0:
        return core.ood("no-degrees-of-freedom")
    scheme, result, warns = run_optimize(spec)
    vals = {p.label: float(p.value) for p in result.optimized_parameters.all()}
    try:
        ref = S.reference(spec, vals=vals)
    except np.linalg.LinAlgError:
        return core.ood("fit-diverged-reference-not-evaluable")
    if not np.isfinite(ref["cond"]) or ref["cond"] > 1e8:
        return core.ood("ill-conditioned")
    tol = S.tolerance(ref, 2.0)
    vs = []
    x_eff = {}
    for d in spec["datasets"]:
        ginfo = ref["groups"][d["group"]]
        x_eff[d["label"]] = ginfo["mapping"][d["label"]] if ginfo["linked"] else list(d["global_axis"])
    for d in spec["datasets"]:
        lab = d["label"]
        if lab not in result.data:
            vs.append(V("dataset-missing-from-result", dataset=lab))
            continue
        vs += check_dataset(spec, d, result.data[lab], ref["datasets"][lab], tol, x_eff[lab])
    # exact relations: target == parameter * source on the interval (checked on the result arrays)
    for k, r in enumerate(spec["relations"]):
        p = vals[f"rel.{k+1}"]
        for d in spec["datasets"]:
            rd = result.data[d["label"]]
            if d["global_megacomplexes"] or "clp" not in rd:
                continue
            labels = [str(x) for x in rd["clp"].coords["clp_label"].values]
            if r["source"] in labels and r["target"] in labels:
                C = rd["clp"].transpose(d.get("global_dim", "spectral"), "clp_label").values
                for i, x in enumerate(x_eff[d["label"]]):
                    if S.interval_applies(r.get("interval"), x):
                        want = p * C[i, labels.index(r["source"])]
                        if C[i, labels.index(r["target"])] != want:
                            vs.append(V("related-clp-not-exactly-parameter-times-source", dataset=d["label"], x=float(x),
                                        got=float(C[i, labels.index(r["target"])]), want=float(want)))  # fmt: skip
                            break
    nontrivial = bool(case["opts"])
    return core.ok(key=case["opts"] if nontrivial else None, outcome=[len(vs), sorted(result.data)], violations=vs)


CASE_FUNCS = {"result": case_result}

AXES_C03 = [a for a in F.AXES]


def run(run: core.Run):
    quick = run.tier == "quick"
    t = 3 if quick else 4
    opts = F.t_way(t)
    # label sets are the point of C03: cross every <= (t-1)-way assignment with every label set as well
    extra = []
    for ls in ("substr", "rev", "concat"):
        for o in F.t_way(t - 1, [a for a in F.AXES if a != "labels"]):
            extra.append(dict(o, labels=ls))
    F.AXES["labels"] = ["d", "substr", "rev", "concat"]
    seen, cases = set(), []
    for o in opts + extra:
        k = core.digest(o)
        if k not in seen:
            seen.add(k)
            cases.append({"opts": o, "seed": run.seed})
    run.bounds.update({"t_way": t, "axes": F.AXES, "label_sets": F.LABEL_SETS})
    run.rule = (
        f"all assignments of the scheme-feature axes differing from the default in <= {t} axes, crossed with the "
        "label sets {d1.., a/ab/b/ba, ab/a/bab/b}; optimize(max_nfev=1) on noisy data; oracle: data=fitted+residual, "
        "fitted=scale*matrix*clp(*global_matrix^T), weighted_residual=weight*residual, coordinates, label order, "
        "exact zeros/relations, and residual/clp/matrix/weight equal to the independent reference. "
        "distinct_nontrivial = distinct non-default option assignments in the domain"
    )
    run.assumptions = ["harness megacomplexes; tiny axes; see C02"]
    run.map("result", cases)
