"""C07 -- oscillation, artifact and spectral basis functions obey their definitions.

E1 over grids of frequency x damping x IRF width x centre x time (incl. truncation seams) x oscillation count x
Gaussians x per-index shift / dispersion; coherent artifact orders and widths; spectral shape parameters.
Oracles: Re/Im of exp(-gamma t - i omega t); the causal (PFID: anti-causal) oscillation convolved with the IRF Gaussian
evaluated with the Faddeeva function (scipy.special.wofz - a different special-function path from the erf the
implementation calls) with one proportionality constant per dataset; the decay model's effective IRF position per
index; Gaussian and its derivatives; documented shape formulae and their limits.
"""
from __future__ import annotations

import itertools
import math

import numpy as np
from scipy import special

from vf import core
from vf.core import V
from vf.gen import builtin_models as B

LEVEL = "exploration"
CONV = 0.03 * 2 * np.pi


def _half_gauss_w(z, tp, sigma, k_term):
    """(1/2) exp(-t'^2/2 sigma^2) w(i z), evaluated without overflow: for Re z < 0 use w(zeta) = 2 exp(-zeta^2) - w(-zeta),
    where exp(-t'^2/2sigma^2 + z^2) equals k_term = exp(-k t' + k^2 sigma^2/2) (or its anti-causal counterpart)"""
    g = np.exp(-(tp**2) / (2 * sigma * sigma))
    pos = z.real >= 0
    out = np.empty(z.shape, dtype=complex)
    out[pos] = 0.5 * g[pos] * special.wofz(1j * z[pos])
    out[~pos] = k_term[~pos] - 0.5 * g[~pos] * special.wofz(-1j * z[~pos])
    return out


def conv_causal(k, sigma, tp):
    """int_0^inf exp(-k s) N(t'-s) ds = (1/2) exp(-k t' + k^2 sigma^2/2) erfc((k sigma^2 - t')/(sigma sqrt2)) via Faddeeva"""
    tp = np.asarray(tp, dtype=float)
    z = (k * sigma * sigma - tp) / (sigma * math.sqrt(2)) + 0j
    with np.errstate(over="ignore", invalid="ignore"):
        k_term = np.exp(-k * tp + 0.5 * (k * sigma) ** 2)
    return _half_gauss_w(z, tp, sigma, k_term)


def conv_anticausal(k, sigma, tp):
    """int_{-inf}^0 exp(-k s) N(t'-s) ds for Re k < 0"""
    tp = np.asarray(tp, dtype=float)
    z = (tp - k * sigma * sigma) / (sigma * math.sqrt(2)) + 0j
    with np.errstate(over="ignore", invalid="ignore"):
        k_term = np.exp(-k * tp + 0.5 * (k * sigma) ** 2)
    return _half_gauss_w(z, tp, sigma, k_term)


def time_axis(center, width, dt):
    # uniform core (fixes the aliasing cut-off) plus points around the +-5 sigma truncation seams
    core_t = np.arange(-12, 60) * dt + center
    extra = center + width * np.array([-20.0, -6.0, -5.001, -4.999, -3.0, 0.0, 3.0, 4.999, 5.001, 20.0, 200.0])
    return np.unique(np.concatenate([core_t, extra]))


def osc_model(labels, irf=None, extra_mc=None, dataset_extra=None):
    md = {
        "megacomplex": {"osc": {"type": "damped-oscillation", "labels": labels, "frequencies": [f"f.{l}" for l in labels],
                                "rates": [f"r.{l}" for l in labels]}},
        "dataset": {"d1": {"megacomplex": ["osc"]}},
    }  # fmt: skip
    if irf:
        md["irf"] = {"irf1": irf}
        md["dataset"]["d1"]["irf"] = "irf1"
    if extra_mc:
        md["megacomplex"].update(extra_mc)
        md["dataset"]["d1"]["megacomplex"] = list(extra_mc) + ["osc"]
    if dataset_extra:
        md["dataset"]["d1"].update(dataset_extra)
    return md


def case_osc_no_irf(case):
    labels = [f"o{i+1}" for i in range(len(case["osc"]))]
    vals = {}
    for l, (f, r) in zip(labels, case["osc"]):
        vals[f"f.{l}"] = f
        vals[f"r.{l}"] = r
    t = np.asarray(case["times"], dtype=float)
    got_labels, M, _, _ = B.calc_matrix(osc_model(labels), vals, "d1", [1.0], t)
    vs = []
    if sorted(got_labels) != sorted([f"{l}_cos" for l in labels] + [f"{l}_sin" for l in labels]):
        return core.ok(key=None, outcome="labels", violations=[V("oscillation-clp-labels", got=got_labels)])
    for l, (f, r) in zip(labels, case["osc"]):
        w = f * CONV
        ref = np.exp(-r * t - 1j * w * t)
        for part, want in (("cos", ref.real), ("sin", ref.imag)):
            col = M[:, got_labels.index(f"{l}_{part}")]
            if np.abs(col - want).max() > 1e-12 * max(1.0, np.abs(want).max()):
                other = [(l2, p2) for l2, (f2, r2) in zip(labels, case["osc"]) for p2, w2 in (("cos", np.exp(-r2 * t - 1j * f2 * CONV * t).real), ("sin", np.exp(-r2 * t - 1j * f2 * CONV * t).imag))
                         if np.abs(col - w2).max() <= 1e-12 * max(1.0, np.abs(w2).max())]  # fmt: skip
                vs.append(V("oscillation-column-differs-from-definition", label=f"{l}_{part}", frequency=f, rate=r,
                            max_abs=float(np.abs(col - want).max()), column_actually_is=other[:1], n_oscillations=len(labels)))  # fmt: skip
                break
        if vs:
            break
    return core.ok(key=case["osc"], outcome=len(vs), violations=vs)


def irf_dict(case, vals):
    disp = case.get("center_coeffs") or case.get("width_coeffs")
    irf = {"type": "spectral-multi-gaussian" if disp else "multi-gaussian", "center": [], "width": []}
    for i, c in enumerate(case["centers"]):
        vals[f"c.{i+1}"] = c
        irf["center"].append(f"c.{i+1}")
    for i, w in enumerate(case["widths"]):
        vals[f"w.{i+1}"] = w
        irf["width"].append(f"w.{i+1}")
    if case.get("scales"):
        irf["scale"] = []
        for i, s in enumerate(case["scales"]):
            vals[f"sc.{i+1}"] = s
            irf["scale"].append(f"sc.{i+1}")
    if disp:
        vals["dc"] = case["dispersion_center"]
        irf["dispersion_center"] = "dc"
        irf["center_dispersion_coefficients"] = []
        for i, co in enumerate(case.get("center_coeffs", [])):
            vals[f"cd.{i+1}"] = co
            irf["center_dispersion_coefficients"].append(f"cd.{i+1}")
        irf["width_dispersion_coefficients"] = []
        for i, co in enumerate(case.get("width_coeffs", [])):
            vals[f"wd.{i+1}"] = co
            irf["width_dispersion_coefficients"].append(f"wd.{i+1}")
    if case.get("shifts") is not None:
        irf["shift"] = []
        for i, s in enumerate(case["shifts"]):
            vals[f"sh.{i+1}"] = s
            irf["shift"].append(f"sh.{i+1}")
    return irf


def effective(case, i, lam):
    """the decay model's effective IRF position at index i (C05 reference)"""
    cs, ws = list(case["centers"]), list(case["widths"])
    if case.get("center_coeffs") or case.get("width_coeffs"):
        d = (lam - case["dispersion_center"]) / 100.0
        cs = [c + sum(co * d ** (p + 1) for p, co in enumerate(case.get("center_coeffs", []))) for c in cs]
        ws = [w + sum(co * d ** (p + 1) for p, co in enumerate(case.get("width_coeffs", []))) for w in ws]
    sh = case["shifts"][i] if case.get("shifts") is not None else 0.0
    n = max(len(cs), len(ws))
    cs = cs if len(cs) == n else cs * n
    ws = ws if len(ws) == n else ws * n
    return [c - sh for c in cs], ws


def case_osc_irf(case):
    labels = [f"o{i+1}" for i in range(len(case["osc"]))]
    vals = {}
    for l, (f, r) in zip(labels, case["osc"]):
        vals[f"f.{l}"] = f
        vals[f"r.{l}"] = r
    irf = irf_dict(case, vals)
    axis = case["axis"]
    t = time_axis(case["centers"][0], case["widths"][0], case["dt"])
    got_labels, M, _, _ = B.calc_matrix(osc_model(labels, irf), vals, "d1", axis, t)
    vs = []
    scales = case.get("scales") or [1.0] * max(len(case["centers"]), len(case["widths"]))
    const = None
    for i, lam in enumerate(axis):
        Mi = M[i] if M.ndim == 3 else M
        cs, ws = effective(case, i, lam)
        for l, (f, r) in zip(labels, case["osc"]):
            k = r + 1j * f * CONV
            ref = sum(s * conv_causal(k, w, t - c) for c, w, s in zip(cs, ws, scales)) / sum(scales)
            for part, want in (("cos", ref.real), ("sin", ref.imag)):
                col = Mi[:, got_labels.index(f"{l}_{part}")]
                if const is None:
                    j = int(np.argmax(np.abs(want)))
                    if abs(want[j]) < 1e-3:
                        continue
                    const = col[j] / want[j]
                colscale = max(np.abs(want).max() * abs(const), 1e-300)
                # 5 sigma truncation documented by the code: absolute error up to 2 Phi(-5) of the column scale
                tol = 6e-7 * abs(const) * len(cs) * max(1.0, np.abs(want).max()) + 1e-9 * colscale
                err = np.abs(col - const * want)
                if err.max() > tol:
                    jj = int(np.argmax(err))
                    tp = float(t[jj] - cs[0])
                    regime = "/rate-times-width>=5" if abs(r) * max(ws) >= 5 else ""
                    vs.append(V("oscillation-irf-column-not-proportional-to-convolution" + regime, label=f"{l}_{part}", index=i, constant=float(const),
                                t_rel_center_in_widths=tp / ws[0], got=float(col[jj]), want=float(const * want[jj]), frequency=f, rate=r,
                                before_pulse=bool(tp < -5 * ws[0]), shifted=case.get("shifts") is not None,
                                dispersed=bool(case.get("center_coeffs") or case.get("width_coeffs"))))  # fmt: skip
                    break
            if vs:
                break
        if vs:
            break
    key = {k: case[k] for k in case if k != "seed"}
    return core.ok(key=key, outcome=[len(vs), None if const is None else round(float(const), 6)], violations=vs)


def case_pfid(case):
    labels = [f"p{i+1}" for i in range(len(case["osc"]))]
    vals = {}
    for l, (f, r) in zip(labels, case["osc"]):
        vals[f"f.{l}"] = f
        vals[f"r.{l}"] = r
    irf = irf_dict(case, vals)
    md = {"megacomplex": {"pf": {"type": "pfid", "labels": labels, "frequencies": [f"f.{l}" for l in labels], "rates": [f"r.{l}" for l in labels]}},
          "irf": {"irf1": irf}, "dataset": {"d1": {"megacomplex": ["pf"], "irf": "irf1"}}}  # fmt: skip
    axis = case["axis"]
    t = time_axis(case["centers"][0], case["widths"][0], case["dt"])
    got_labels, M, _, _ = B.calc_matrix(md, vals, "d1", axis, t)
    vs = []
    scales = case.get("scales") or [1.0] * max(len(case["centers"]), len(case["widths"]))
    const = None
    for i, lam in enumerate(axis):
        cs, ws = effective(case, i, lam)
        for l, (f, r) in zip(labels, case["osc"]):
            k = r + 1j * (lam - f) * CONV
            ref = sum(s * conv_anticausal(k, w, t - c) for c, w, s in zip(cs, ws, scales)) / sum(scales)
            for part, want in (("cos", ref.real), ("sin", ref.imag)):
                col = M[i][:, got_labels.index(f"{l}_{part}")]
                if const is None:
                    j = int(np.argmax(np.abs(want)))
                    if abs(want[j]) < 1e-3:
                        continue
                    const = col[j] / want[j]
                colscale = max(np.abs(want).max() * abs(const), 1e-300)
                tol = 6e-7 * abs(const) * len(cs) * max(1.0, np.abs(want).max()) + 1e-9 * colscale
                err = np.abs(col - const * want)
                if err.max() > tol:
                    jj = int(np.argmax(err))
                    regime = "/rate-times-width>=5" if abs(r) * max(ws) >= 5 else ""
                    vs.append(V("pfid-column-not-proportional-to-anticausal-convolution" + regime, label=f"{l}_{part}", index=i, constant=float(const),
                                t_rel_center_in_widths=float((t[jj] - cs[0]) / ws[0]), got=float(col[jj]), want=float(const * want[jj]),
                                shifted=case.get("shifts") is not None))  # fmt: skip
                    break
            if vs:
                break
        if vs:
            break
    key = {k: case[k] for k in case if k != "seed"}
    return core.ok(key=key, outcome=[len(vs), None if const is None else round(float(const), 6)], violations=vs)


def case_artifact(case):
    vals = {}
    irf = irf_dict(case, vals)
    mc = {"type": "coherent-artifact", "order": case["order"]}
    if case.get("own_width"):
        vals["aw"] = case["own_width"]
        mc["width"] = "aw"
    md = {"megacomplex": {"ca": mc}, "irf": {"irf1": irf}, "dataset": {"d1": {"megacomplex": ["ca"], "irf": "irf1"}}}
    axis = case["axis"]
    t = time_axis(case["centers"][0], case["widths"][0], 0.05)
    labels, M, _, _ = B.calc_matrix(md, vals, "d1", axis, t)
    vs = []
    for i, lam in enumerate(axis):
        cs, ws = effective(case, i, lam)
        c = cs[0]
        w = case["own_width"] if case.get("own_width") else ws[0]
        g = np.exp(-((t - c) ** 2) / (2 * w * w))
        want = [g, -(t - c) / w**2 * g, ((t - c) ** 2 / w**4 - 1 / w**2) * g]
        Mi = M[i] if M.ndim == 3 else M
        for o in range(case["order"]):
            col = Mi[:, labels.index(f"coherent_artifact_{o+1}_ca")]
            # natural scale of the o-th derivative is w^-o; the expanded polynomial the code uses cancels ~ eps * c^2 / w^2
            if np.abs(col - want[o]).max() > 1e-10 * max(1.0, np.abs(want[o]).max(), w ** (-o)) * max(1.0, (c / w) ** 2 * 1e-3):
                vs.append(V("coherent-artifact-column-not-the-gaussian-derivative", order=o + 1, index=i, effective_center=c, width=w,
                            max_abs=float(np.abs(col - want[o]).max()), own_width=bool(case.get("own_width")),
                            width_dispersion=bool(case.get("width_coeffs")), shifted=case.get("shifts") is not None))  # fmt: skip
                break
        if vs:
            break
    key = {k: case[k] for k in case if k != "seed"}
    return core.ok(key=key, outcome=len(vs), violations=vs)


def case_shape(case):
    from glotaran.builtin.megacomplexes.spectral.shape import SpectralShapeGaussian
    from glotaran.builtin.megacomplexes.spectral.shape import SpectralShapeSkewedGaussian

    A, x0, fwhm, b = case["amplitude"], case["location"], case["width"], case["skewness"]
    kw = {"label": "s", "location": x0, "width": fwhm}
    if A is not None:
        kw["amplitude"] = A
    amp = 1.0 if A is None else A
    x = np.array([x0, x0 + fwhm / 2, x0 - fwhm / 2] + list(x0 + fwhm * np.linspace(-3, 3, 61)))
    vs = []
    gauss = amp * np.exp(-math.log(2) * (2 * (x - x0) / fwhm) ** 2)
    if b is None:
        y = SpectralShapeGaussian(type="gaussian", **kw).calculate(x.copy())
        if abs(y[0] - amp) > 1e-14 * abs(amp):
            vs.append(V("gaussian-value-at-location-is-not-the-amplitude", got=float(y[0]), amplitude=amp))
        if abs(y[1] - amp / 2) > 1e-12 * abs(amp) or abs(y[2] - amp / 2) > 1e-12 * abs(amp):
            vs.append(V("gaussian-not-half-maximum-at-half-fwhm", got=[float(y[1]), float(y[2])], amplitude=amp))
        if np.abs(y - gauss).max() > 1e-12 * abs(amp):
            vs.append(V("gaussian-shape-differs-from-formula"))
    else:
        y = SpectralShapeSkewedGaussian(type="skewed-gaussian", skewness=b, **kw).calculate(x.copy())
        if abs(y[0] - amp) > 1e-12 * abs(amp):
            vs.append(V("skewed-gaussian-value-at-location-is-not-the-amplitude", got=float(y[0]), amplitude=amp, skewness=b))
        arg = 1 + 2 * b * (x - x0) / fwhm
        want = np.zeros_like(x)
        ok = arg > 0
        if b != 0:
            want[ok] = amp * np.exp(-math.log(2) * (np.log(arg[ok]) / b) ** 2)
        else:
            want = gauss
        # near b = 0 the documented formula is evaluated through its limit; continuity: |f_b - gauss| = O(|b|)
        if abs(b) > 1e-6:
            if np.abs(y - want).max() > 1e-9 * abs(amp):
                vs.append(V("skewed-gaussian-differs-from-formula", skewness=b, max_abs=float(np.abs(y - want).max())))
            if np.any(y[~ok] != 0):
                vs.append(V("skewed-gaussian-nonzero-where-log-argument-not-positive", skewness=b))
        if np.abs(y - gauss).max() > 12 * abs(b) * abs(amp) + 1e-9 * abs(amp):
            vs.append(V("skewed-gaussian-not-continuous-towards-gaussian", skewness=b, max_abs=float(np.abs(y - gauss).max()), amplitude=amp))
    return core.ok(key=[A, x0, fwhm, b], outcome=len(vs), violations=vs)


def case_spectral_axis(case):
    """inverted / scaled spectral axes equal the shape on the transformed axis"""
    x = np.asarray(case["axis"], dtype=float)
    md = {"megacomplex": {"sp": {"type": "spectral", "shape": {"s1": "sh1", "s2": "sh2"}}},
          "shape": {"sh1": {"type": "gaussian", "amplitude": "a1", "location": "l1", "width": "w1"},
                    "sh2": {"type": "skewed-gaussian", "location": "l2", "width": "w2", "skewness": "b2"}},
          "dataset": {"d1": {"megacomplex": ["sp"], "spectral_axis_inverted": case["inverted"], "spectral_axis_scale": case["scale"]}}}  # fmt: skip
    vals = {"a1": 2.5, "l1": case["loc"], "w1": case["fwhm"], "l2": case["loc"] * 1.1, "w2": case["fwhm"] * 0.7, "b2": 0.3}
    labels, M, _, _ = B.calc_matrix(md, vals, "d1", [0.0], x)
    xt = case["scale"] / x if case["inverted"] else x * case["scale"]
    g = 2.5 * np.exp(-math.log(2) * (2 * (xt - vals["l1"]) / vals["w1"]) ** 2)
    arg = 1 + 2 * 0.3 * (xt - vals["l2"]) / vals["w2"]
    sk = np.zeros_like(xt)
    sk[arg > 0] = np.exp(-math.log(2) * (np.log(arg[arg > 0]) / 0.3) ** 2)
    vs = []
    if labels != ["s1", "s2"]:
        vs.append(V("spectral-labels", got=labels))
    elif np.abs(M[:, 0] - g).max() > 1e-12 or np.abs(M[:, 1] - sk).max() > 1e-12:
        vs.append(V("shape-on-transformed-axis-differs", inverted=case["inverted"], scale=case["scale"]))
    return core.ok(key=[case["inverted"], case["scale"], case["loc"]], outcome=len(vs), violations=vs)


CASE_FUNCS = {"osc_no_irf": case_osc_no_irf, "osc_irf": case_osc_irf, "pfid": case_pfid, "artifact": case_artifact,
              "shape": case_shape, "spectral_axis": case_spectral_axis}  # fmt: skip


def run(run: core.Run):
    quick = run.tier == "quick"
    freqs = [0.0, 1.0, 33.0, 100.0, 500.0] + ([] if quick else [2000.0])
    damp = [0.0, 0.05, 1.0, 20.0]
    times = list(np.arange(-10, 80) * 0.004)  # dt = 4 fs: aliasing cut-off far above 2000 cm-1
    noirf = []
    singles = [(f, r) for f in freqs for r in damp + [-0.5]]
    for o in singles:
        noirf.append({"osc": [list(o)], "times": times})
    for a, b in itertools.combinations(singles[:: 3 if quick else 1], 2):
        noirf.append({"osc": [list(a), list(b)], "times": times})
    for trio in itertools.combinations(singles[::5], 3):
        noirf.append({"osc": [list(x) for x in trio], "times": times})
    run.map("osc_no_irf", noirf)
    widths = [0.02, 0.1, 1.0] if quick else [1e-3, 0.02, 0.1, 1.0, 5.0]
    irfc = []
    for w in widths:
        dt = w / 4
        fs = [f for f in freqs if f * 0.03 * 2 * w < 20]  # keep omega*sigma in the range where wofz is accurate and below aliasing
        for f in fs:
            for r in damp:
                base = {"osc": [[f, r]], "centers": [0.3], "widths": [w], "axis": [600.0], "dt": dt}
                irfc.append(base)
        osc2 = [[fs[min(1, len(fs) - 1)], 0.05], [fs[-1], 1.0]]
        irfc.append({"osc": osc2, "centers": [0.3], "widths": [w], "axis": [600.0], "dt": dt})
        irfc.append({"osc": osc2 + [[fs[0], 20.0]], "centers": [0.3], "widths": [w], "axis": [600.0], "dt": dt})
        irfc.append({"osc": osc2, "centers": [0.3], "widths": [w, 2 * w], "scales": [1.0, 0.4], "axis": [600.0], "dt": dt})
        irfc.append({"osc": osc2, "centers": [0.3, 0.3 + w], "widths": [w, 2 * w], "scales": [2.0, 0.5], "axis": [600.0], "dt": dt})
        axis = [600.0, 650.0, 720.0]
        irfc.append({"osc": osc2, "centers": [0.3], "widths": [w], "axis": axis, "dt": dt, "shifts": [w * 0.5, -w * 1.5, w * 3]})
        irfc.append({"osc": osc2, "centers": [0.3], "widths": [w], "axis": axis, "dt": dt, "dispersion_center": 650.0, "center_coeffs": [w, -w / 2]})
        irfc.append({"osc": osc2, "centers": [0.3], "widths": [w], "axis": axis, "dt": dt, "dispersion_center": 650.0,
                     "center_coeffs": [w], "width_coeffs": [w / 5], "shifts": [w, 0.0, -w]})  # fmt: skip
    run.map("osc_irf", irfc)
    pf = []
    for w in widths[:3] if quick else widths:
        dt = w / 4
        for r in (-0.5, -2.0, -20.0):
            for fa in (1600.0, 1650.0):
                axis = [1590.0, 1600.0, 1610.0, 1650.0]
                pf.append({"osc": [[fa, r]], "centers": [0.3], "widths": [w], "axis": axis, "dt": dt})
                pf.append({"osc": [[fa, r]], "centers": [0.3], "widths": [w], "axis": axis, "dt": dt, "shifts": [w, -w, 0.5 * w, 2 * w]})
                # dispersion without shift (the effective position still differs per index), with and without width dispersion
                pf.append({"osc": [[fa, r]], "centers": [0.3], "widths": [w], "axis": axis, "dt": dt, "dispersion_center": 1620.0,
                           "center_coeffs": [2 * w, -w]})  # fmt: skip
                if fa == 1600.0:
                    pf.append({"osc": [[fa, r]], "centers": [0.3], "widths": [w], "axis": axis, "dt": dt, "dispersion_center": 1620.0,
                               "center_coeffs": [w], "width_coeffs": [w / 4]})  # fmt: skip
        pf.append({"osc": [[1600.0, -1.0], [1650.0, -3.0]], "centers": [0.3], "widths": [w, 2 * w], "scales": [1.0, 0.5],
                   "axis": [1590.0, 1640.0], "dt": dt})  # fmt: skip
    run.map("pfid", pf)
    art = []
    for order in (1, 2, 3):
        for w in widths:
            for own in (None, 2.5 * w):
                art.append({"order": order, "centers": [0.3], "widths": [w], "axis": [600.0], "own_width": own})
                axis = [600.0, 650.0, 720.0]
                art.append({"order": order, "centers": [0.3], "widths": [w], "axis": axis, "own_width": own, "shifts": [w, -2 * w, 0.3 * w]})
                art.append({"order": order, "centers": [0.3], "widths": [w], "axis": axis, "own_width": own, "dispersion_center": 650.0,
                            "center_coeffs": [w, w / 3], "width_coeffs": [w / 4]})  # fmt: skip
                art.append({"order": order, "centers": [0.3, 0.5], "widths": [w, 2 * w], "scales": [1.0, 2.0], "axis": axis, "own_width": own,
                            "dispersion_center": 650.0, "width_coeffs": [w / 4], "shifts": [0.0, w, -w]})  # fmt: skip
    run.map("artifact", art)
    shapes = []
    for A in (None, 1.0, 3.5, -2.0, 1e-6):
        for x0 in (0.0, 650.0, -3.0):
            for fw in (0.5, 40.0):
                for b in (None, 0.0, 1e-9, -1e-9, 5e-9, 1e-6, -1e-6, 1e-3, -1e-3, 0.1, -0.1, 1.0, -1.0):
                    shapes.append({"amplitude": A, "location": x0, "width": fw, "skewness": b})
    run.map("shape", shapes)
    sa = []
    for inv in (False, True):
        for sc in (1.0, 1e7, 0.5):
            for loc in (650.0, 15000.0):
                axis = list(np.linspace(500, 800, 31)) if not inv else list(1e7 / np.linspace(12000, 18000, 31)) if sc == 1e7 else list(np.linspace(1e-3, 2e-3, 31))
                if inv:
                    loc = float(np.median(sc / np.asarray(axis)))
                else:
                    loc = float(np.median(np.asarray(axis) * sc))
                sa.append({"inverted": inv, "scale": sc, "loc": loc, "fwhm": abs(loc) * 0.05, "axis": axis})
    run.map("spectral_axis", sa)
    run.bounds = {"frequencies_cm-1": freqs, "damping": damp + [-0.5], "irf_widths": widths, "oscillations": "1-3", "gaussians": "1-2",
                  "artifact_orders": [1, 2, 3], "skewness": "0, +-1e-9 .. +-1"}  # fmt: skip
    run.rule = (
        "grids of frequency x damping x IRF width x (uniform time axis + truncation-seam points) for 1-3 oscillations, "
        "1-2 Gaussians, per-index shift and dispersion; PFID (anti-causal) likewise; coherent artifact order x own/IRF width "
        "x shift x dispersion; Gaussian / skewed-Gaussian parameters incl. skewness -> 0; inverted/scaled axes. "
        "distinct_nontrivial = distinct grid cases"
    )
    run.assumptions = [
        "damped oscillation with IRF and negative rate (an anti-causal model the statement does not describe) is not judged",
        "omega*sigma limited to the range where the Faddeeva reference is accurate; frequencies below the aliasing cut-off",
    ]
