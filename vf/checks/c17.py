"""C17 -- models, schemes, datasets and results survive persistence unchanged.

E1: (1) every model of the generator (all builtin item types: tuple-keyed K-matrices, interval tuples / lists / unset,
nested parameter labels, optional fields unset, several dataset groups, weights, penalties) saved to yml and loaded:
identical specification and identical objective; (2) results of enumerated fits x SavingOptions x target kinds, loaded,
moved and loaded again: parameters, histories, statistics, datasets, relative references; (3) datasets of many shapes /
coordinate values through netCDF (bit-equal) and the two ASCII layouts x number formats (written precision, numeric axes,
orientation).
"""
from __future__ import annotations

import copy
import itertools
import math
import os
import shutil
import tempfile
import warnings
from pathlib import Path

import numpy as np

from vf import core
from vf.core import V
from vf.gen import builtin_models as B

LEVEL = "exploration"

TIME = np.concatenate([np.linspace(-0.5, 1, 16), np.array([2.0, 5.0, 12.0])])
SPEC = np.array([600.0, 650.0, 700.0])


# --------------------------------------------------------------------------- (1) models
def model_specs():
    """name -> (model dict for the yml loader, parameter values).  Built as yml-style dicts (string K-matrix keys)."""
    from vf.checks import c20

    out = {}
    for name, md in c20.base_models().items():
        out[name] = md
    # variations of interval forms / optional fields / dataset groups
    base = {
        "megacomplex": {"m1": {"type": "decay", "k_matrix": ["km"]}},
        "k_matrix": {"km": {"matrix": {"s2<-s1": "rates.k1", "s3<-s2": "rates.k2", "s3<-s3": "rates.k3", "s1<-s1": "rates.k4"}}},
        "initial_concentration": {"j": {"compartments": ["s1", "s2", "s3"], "parameters": ["j.1", "j.0", "j.0"], "exclude_from_normalize": ["s3"]}},
        "dataset": {"d1": {"megacomplex": ["m1"], "initial_concentration": "j"}},
    }
    for i, (ci, ri) in enumerate(itertools.product([None, (1.0, 2.0), [(1.0, 2.0)], [(1.0, 2.0), (600.0, 700.0)], (float("-inf"), 650.0)],
                                                   [None, (600.0, 700.0), [(600.0, 650.0), (690.0, 700.0)]])):  # fmt: skip
        md = copy.deepcopy(base)
        c = {"type": "zero" if i % 2 == 0 else "only", "target": "s1"}
        if ci is not None:
            c["interval"] = ci
        elif c["type"] == "only":
            c["type"] = "zero"
        md["clp_constraints"] = [c]
        r = {"source": "s1", "target": "s2", "parameter": "rel.p"}
        if ri is not None:
            r["interval"] = ri
        md["clp_relations"] = [r]
        md["clp_penalties"] = [{"type": "equal_area", "source": "s1", "source_intervals": [(600.0, 650.0)], "target": "s3",
                                "target_intervals": [(650.0, 700.0), (600.0, 610.0)], "parameter": "pen.p", "weight": 0.1 * (i + 1)}]  # fmt: skip
        out[f"intervals_{i}"] = md
    two = copy.deepcopy(base)
    two["dataset_groups"] = {"default": {"link_clp": True}, "second": {"residual_function": "non_negative_least_squares", "link_clp": False}}
    two["dataset"]["d2"] = {"megacomplex": ["m1"], "initial_concentration": "j", "group": "second", "scale": "sc.2"}
    two["weights"] = [{"datasets": ["d1", "d2"], "global_interval": (600.0, 650.0), "model_interval": (0.0, 1.0), "value": 0.5},
                      {"datasets": ["d2"], "value": 2.0}]  # fmt: skip
    out["two_groups_weights"] = two
    # compartments labelled by numbers (strings "1", "2", "3": K-matrix keys are written as "(2, 1)")
    num = copy.deepcopy(base)
    ren = {"s1": "1", "s2": "2", "s3": "3"}
    num["k_matrix"] = {"km": {"matrix": {"<-".join(ren[x] for x in k.split("<-")): v for k, v in base["k_matrix"]["km"]["matrix"].items()}}}
    num["initial_concentration"]["j"]["compartments"] = ["1", "2", "3"]
    num["initial_concentration"]["j"]["exclude_from_normalize"] = ["3"]
    out["numeric_compartments"] = num
    # labels that YAML 1.1 would read as booleans (they are labels: strings)
    yn = copy.deepcopy(base)
    ren = {"s1": "s1", "s2": "yes", "s3": "no"}
    yn["k_matrix"] = {"km": {"matrix": {"<-".join(ren[x] for x in k.split("<-")): v for k, v in base["k_matrix"]["km"]["matrix"].items()}}}
    yn["initial_concentration"]["j"]["compartments"] = ["s1", "yes", "no"]
    yn["initial_concentration"]["j"]["exclude_from_normalize"] = ["no"]
    yn["dataset"] = {"on": copy.deepcopy(base["dataset"]["d1"]), "off": copy.deepcopy(base["dataset"]["d1"])}
    yn["weights"] = [{"datasets": ["on"], "value": 0.5}]
    yn["clp_constraints"] = [{"type": "zero", "target": "yes", "interval": (600.0, 650.0)}]
    out["boolean_like_labels"] = yn
    return out


def string_leaves_preserved(spec, loaded, path=()):
    """every string of the specification the model was loaded from is still that string in the loaded model"""
    bad = []
    if isinstance(spec, dict) and isinstance(loaded, dict):
        for k, v in spec.items():
            if k in loaded:
                bad += string_leaves_preserved(v, loaded[k], path + (k,))
    elif isinstance(spec, (list, tuple)) and isinstance(loaded, (list, tuple)) and len(spec) == len(loaded):
        for i, (a, b) in enumerate(zip(spec, loaded)):
            bad += string_leaves_preserved(a, b, path + (i,))
    elif isinstance(spec, str) and not (isinstance(loaded, str) and loaded == spec):
        bad.append((list(map(str, path)), spec, repr(loaded)))
    return bad


def objective_of(model, values, datasets):
    from glotaran.optimization.optimizer import Optimizer
    from glotaran.project import Scheme

    params = B.make_parameters(values)
    data = {}
    for label in model.dataset:
        data[label] = datasets(label)
    scheme = Scheme(model=model, parameters=params, data=data, maximum_number_function_evaluations=1, add_svd=False)
    opt = Optimizer(scheme, verbose=False, raise_exception=True)
    lab, x, _, _ = params.get_label_value_and_bounds_arrays(exclude_non_vary=True)
    opt._free_parameter_labels = lab
    return np.asarray(opt.objective_function(x), dtype=float)


def plain(o):
    """as_dict with parameters / tuples normalised for comparison"""
    if isinstance(o, dict):
        return {str(k) if not isinstance(k, tuple) else "(" + ", ".join(map(str, k)) + ")": plain(v) for k, v in o.items()}
    if isinstance(o, (list, tuple)):
        return [plain(v) for v in o]
    if isinstance(o, float) and math.isinf(o):
        return "inf" if o > 0 else "-inf"
    return o


def case_model(case):
    from glotaran.io import load_model
    from glotaran.io import save_model
    from vf.checks import c20

    md = model_specs()[case["name"]]
    vs = []
    with warnings.catch_warnings():
        warnings.simplefilter("ignore")
        model = B.make_model(md) if case["route"] == "superset_class" else load_via_yml(md)
    if case["route"] != "superset_class":
        lost = string_leaves_preserved({k: v for k, v in md.items() if k != "k_matrix"}, model.as_dict())
        if lost:
            vs.append(V("label-of-the-specification-changed-by-loading", name=case["name"], first=lost[0], count=len(lost)))
    labels = c20.all_parameter_labels(md)
    values = c20.values_for(labels)
    for l in values:
        if l.startswith("pf.r"):
            values[l] = -abs(values[l])  # PFID models the anti-causal signal: damping rates are negative

    def datasets(label):
        if case["name"] == "spectral_model":
            import xarray as xr

            n = 1 if label == "dg" else 3
            return xr.Dataset({"data": (("spectral", "time"), np.ones((n, 4)) + np.arange(4))}, coords={"spectral": SPEC[:n], "time": [0.0, 1.0, 2.0, 3.0]})
        return B.noisy_dataset(TIME, SPEC, seed=1, salt=label)

    with tempfile.TemporaryDirectory(prefix="vf-c17-") as d, warnings.catch_warnings():
        warnings.simplefilter("ignore")
        f = os.path.join(d, "sub", "model.yml")
        try:
            save_model(model, f)
            loaded = load_model(f)
        except Exception as e:  # noqa: BLE001
            return core.ok(key=[case["name"], case["route"]], outcome="raised",
                           violations=[V(f"model-round-trip-raised/{case['route']}", name=case["name"], exc=repr(e)[:300])])  # fmt: skip
        a, b = plain(model.as_dict()), plain(loaded.as_dict())
        a = {k: v for k, v in a.items() if v not in ({}, [])}
        b = {k: v for k, v in b.items() if v not in ({}, [])}
        if a != b:
            diff = [k for k in set(a) | set(b) if a.get(k) != b.get(k)]
            vs.append(V("loaded-model-specification-differs", name=case["name"], sections=sorted(diff),
                        example={"saved": str(a.get(diff[0]))[:200], "loaded": str(b.get(diff[0]))[:200]}))  # fmt: skip
        else:
            try:
                o1 = objective_of(model, values, datasets)
                o2 = objective_of(loaded, values, datasets)
                if o1.shape != o2.shape or not np.array_equal(o1, o2):
                    vs.append(V("loaded-model-objective-differs", name=case["name"],
                                max_abs=float(np.abs(o1 - o2).max()) if o1.shape == o2.shape else None))  # fmt: skip
            except Exception as e:  # noqa: BLE001
                vs.append(V("loaded-model-cannot-be-evaluated", name=case["name"], exc=repr(e)[:200]))
        # a second cycle is idempotent on the file level
        f2 = os.path.join(d, "model2.yml")
        save_model(loaded, f2)
        if open(f).read() != open(f2).read() and not vs:
            vs.append(V("second-save-writes-a-different-file", name=case["name"]))
    return core.ok(key=[case["name"], case["route"]], outcome=len(vs), violations=vs)


def load_via_yml(md):
    import yaml

    from glotaran.io import load_model

    def conv(o):
        if isinstance(o, dict):
            return {(k if not (isinstance(k, str) and "<-" in k) else "(" + ", ".join(k.split("<-")) + ")"): conv(v) for k, v in o.items()}
        if isinstance(o, tuple):
            return [conv(v) for v in o]
        if isinstance(o, list):
            return [conv(v) for v in o]
        if isinstance(o, float) and math.isinf(o):
            return ".inf" if o > 0 else "-.inf"
        return o

    text = yaml.safe_dump(conv(md), sort_keys=False).replace("'.inf'", ".inf").replace("'-.inf'", "-.inf")
    return load_model(text, format_name="yml_str")


# --------------------------------------------------------------------------- (2) results
def make_result(case):
    from glotaran.optimization.optimize import optimize
    from glotaran.project import Scheme

    md = {"megacomplex": {"m1": {"type": "decay-parallel", "compartments": ["s1", "s2"], "rates": ["rates.k1", "rates.k2"]},
                          "m2": {"type": "coherent-artifact", "order": 2}},
          "irf": {"irf1": {"type": "spectral-gaussian", "center": "irf.c", "width": "irf.w", "dispersion_center": "irf.dc",
                           "center_dispersion_coefficients": ["irf.d1"]}},
          "dataset": {}}  # fmt: skip
    data = {}
    for i in range(case["nds"]):
        lab = f"ds{i+1}"
        md["dataset"][lab] = {"megacomplex": ["m1", "m2"], "irf": "irf1"}
        data[lab] = B.noisy_dataset(TIME, SPEC + 5.0 * i, seed=4, salt=lab)
    # the input data has a previous life: it was saved to and loaded from a raw-data folder that no longer exists
    from glotaran.io import load_dataset
    from glotaran.io import save_dataset

    with tempfile.TemporaryDirectory(prefix="vf-c17-raw-") as raw, warnings.catch_warnings():
        warnings.simplefilter("ignore")
        for lab in list(data):
            save_dataset(data[lab], os.path.join(raw, f"{lab}.nc"))
            data[lab] = load_dataset(os.path.join(raw, f"{lab}.nc")).load()
    if case.get("weights"):
        md["weights"] = [{"datasets": ["ds1"], "global_interval": (600.0, 650.0), "value": 0.5}]
    if case.get("penalty"):
        md["clp_penalties"] = [{"type": "equal_area", "source": "s1", "source_intervals": [(600.0, 700.0)], "target": "s2",
                                "target_intervals": [(600.0, 700.0)], "parameter": "pen.p", "weight": 0.1}]  # fmt: skip
    vals = {"rates.k1": 0.4, "rates.k2": 3.0, "irf.c": 0.1, "irf.w": 0.12, "irf.dc": 650.0, "irf.d1": 0.05, "pen.p": 1.2}
    if not case.get("penalty"):
        vals.pop("pen.p")
    model = load_via_yml(md)
    options = {"irf.dc": {"vary": False}, "rates.k1": {"non_negative": True, "minimum": 0.01, "maximum": 50.0}}
    if case.get("method") == "Levenberg-Marquardt":
        options["rates.k1"] = {"non_negative": True}  # MINPACK does not support bounds
    params = B.make_parameters(vals, options)
    for i, p in enumerate(params.all()):  # the start values are the outcome of an earlier fit: they carry standard errors
        if p.vary:
            p.standard_error = 0.01 * (i + 1) + 0.1 + 0.2
    scheme = Scheme(model=model, parameters=params, data=data, maximum_number_function_evaluations=case["nfev"], add_svd=case.get("add_svd", False),
                    optimization_method=case.get("method", "TrustRegionReflection"))  # fmt: skip
    with warnings.catch_warnings():
        warnings.simplefilter("ignore")
        return optimize(scheme, verbose=True if case.get("verbose") else False, raise_exception=True)


STATS = ["number_of_function_evaluations", "success", "termination_reason", "number_of_jacobian_evaluations", "number_of_residuals",
         "number_of_free_parameters", "number_of_clps", "degrees_of_freedom", "chi_square", "reduced_chi_square", "root_mean_square_error",
         "optimality", "free_parameter_labels", "glotaran_version"]  # fmt: skip


def compare_results(orig, loaded, options, where):
    from vf.checks.c16 import compare as compare_parameters

    vs = []
    for name in ("optimized_parameters", "initial_parameters"):
        for v in compare_parameters(getattr(orig, name), getattr(loaded, name), where):
            vs.append(dict(v, signature=f"result-{name}/" + v["signature"]))
    # the options of the scheme stored with the result (falsy values are values too)
    for f in ("clp_link_tolerance", "clp_link_method", "maximum_number_function_evaluations", "add_svd", "ftol", "gtol", "xtol",
              "optimization_method"):  # fmt: skip
        a, b = getattr(orig.scheme, f), getattr(loaded.scheme, f)
        if a != b or isinstance(a, bool) != isinstance(b, bool):
            vs.append(V("result-scheme-option-changed", option=f, saved=repr(a), loaded=repr(b), where=where))
    for s in STATS:
        a, b = getattr(orig, s), getattr(loaded, s)
        same = (a == b) or (isinstance(a, float) and isinstance(b, float) and (math.isnan(a) and math.isnan(b)))
        if not same:
            vs.append(V("result-statistic-changed", statistic=s, saved=repr(a)[:80], loaded=repr(b)[:80], where=where))
    # jacobian, covariance_matrix, cost and additional_penalty are declared 'exclude_from_dict': they are documented as
    # not being part of the saved result and are therefore not compared
    ha, hb = orig.parameter_history, loaded.parameter_history
    if list(ha.parameter_labels) != list(hb.parameter_labels) or not np.array_equal(np.asarray(ha.parameters, dtype=float), np.asarray(hb.parameters, dtype=float)):
        vs.append(V("parameter-history-changed", where=where))
    oa, ob = orig.optimization_history, loaded.optimization_history
    if not oa.data.equals(ob.data) and not (len(oa.data) == 0 and len(ob.data) == 0):
        if not np.allclose(oa.data.to_numpy(dtype=float), ob.data.to_numpy(dtype=float), rtol=1e-15, atol=0, equal_nan=True):
            vs.append(V("optimization-history-changed", where=where))
    for label, ds in orig.data.items():
        if label not in loaded.data:
            vs.append(V("result-dataset-missing", dataset=label, where=where))
            continue
        ld = loaded.data[label]
        names = list(ds.data_vars) if options.data_filter is None else list(options.data_filter)
        for name in names:
            if name not in ld:
                vs.append(V("result-variable-missing-after-load", dataset=label, variable=name, where=where))
                continue
            a, b = ds[name], ld[name]
            if a.dims != b.dims or a.dtype != b.dtype or not np.array_equal(a.values, b.values, equal_nan=a.dtype.kind == "f"):
                vs.append(V("result-variable-not-bit-equal", dataset=label, variable=name, where=where))
            for c in a.coords:
                if c not in b.coords or not np.array_equal(np.asarray(a.coords[c].values), np.asarray(b.coords[c].values)):
                    vs.append(V("result-coordinate-changed", dataset=label, variable=name, coordinate=str(c), where=where))
                    break
        if options.data_filter is not None:
            extra = [n for n in ld.data_vars if n not in options.data_filter]
            if extra:
                vs.append(V("data-filter-ignored", dataset=label, extra=extra[:5], where=where))
        for k, v in ds.attrs.items():
            if k in ("loader", "source_path"):
                continue
            lv = ld.attrs.get(k)
            if not (np.all(np.asarray(lv == v)) if lv is not None else False):
                vs.append(V("result-dataset-attribute-changed", dataset=label, attribute=k, saved=repr(v)[:60], loaded=repr(lv)[:60], where=where))
    return vs


def case_result(case):
    import yaml

    from glotaran.io import load_result
    from glotaran.io import save_result
    from glotaran.io.interface import SavingOptions

    result = make_result(case)
    options = SavingOptions(data_filter=case["data_filter"], report=case["report"])
    vs = []
    cwd = os.getcwd()
    with tempfile.TemporaryDirectory(prefix="vf-c17-") as d, warnings.catch_warnings():
        warnings.simplefilter("ignore")
        try:
            os.chdir(d)
            if case["target"] == "symlink":  # the folder is reached through a symbolic link
                (Path(d) / "out" / "storage").mkdir(parents=True)
                os.symlink(Path(d) / "out" / "storage", Path(d) / "out" / "link", target_is_directory=True)
            target = {"absolute": Path(d) / "out" / "run1" / "result.yml", "relative": Path("rel") / "run1" / "result.yml",
                      "folder": Path(d) / "out" / "folder_target",
                      "symlink": Path(d) / "out" / "link" / "run1" / "result.yml"}[case["target"]]  # fmt: skip
            if case["target"] != "relative":
                # the scheme of the result was loaded from a file elsewhere (load_scheme -> optimize -> save_result)
                result.scheme.source_path = (Path(d) / "project" / "schemes" / "s.yml").as_posix()
            paths = save_result(result, target, saving_options=options)
            folder = (Path(d) / target).parent if target.suffix else Path(d) / target
            unresolved = folder
            folder = folder.resolve()
            written = sorted(p.name for p in folder.iterdir())
            if (folder / "result.md").exists() != bool(case["report"]):
                vs.append(V("report-option-not-honoured", report=case["report"], written=written))
            for p in paths:
                if not Path(p).exists():
                    vs.append(V("reported-path-does-not-exist", path=str(p)))
            # every reference inside result.yml / scheme.yml is relative and stays inside the folder
            for yml in ("result.yml", "scheme.yml"):
                spec = yaml.safe_load((folder / yml).read_text())
                for ref in refs_of(spec):
                    if os.path.isabs(ref) or ".." in Path(ref).parts:
                        vs.append(V("reference-not-relative-to-result-folder", file=yml, reference=ref))
                    elif not (folder / ref).exists():
                        vs.append(V("reference-does-not-resolve", file=yml, reference=ref))
            loaded = load_result((unresolved if case["target"] == "symlink" else folder) / "result.yml" if case["target"] != "folder" else folder)
            vs += compare_results(result, loaded, options, "in place")
            if case.get("resave") and case["target"] == "absolute":
                # history of the folder: the same result saved there again with another data filter
                other_options = SavingOptions(data_filter=["residual"], report=False)
                save_result(result, target, saving_options=other_options, allow_overwrite=True)
                vs += compare_results(result, load_result(folder / "result.yml"), other_options, "saved again into the same folder with another filter")
                save_result(result, target, saving_options=options, allow_overwrite=True)
                vs += compare_results(result, load_result(folder / "result.yml"), options, "saved a third time with the first options")
            vs += check_sources(loaded, folder, "in place")
            # move the folder, load again
            moved = Path(d) / "elsewhere" / "deep" / "moved_run"
            moved.parent.mkdir(parents=True)
            shutil.move(str(folder), str(moved))
            shutil.rmtree(Path(d) / "out", ignore_errors=True)
            shutil.rmtree(Path(d) / "rel", ignore_errors=True)
            try:
                loaded2 = load_result(moved / "result.yml")
                vs += compare_results(result, loaded2, options, "after moving the folder")
                vs += check_sources(loaded2, moved, "after moving the folder")
                # re-save a loaded result somewhere else, delete the first folder, load again
                if case.get("resave"):
                    again = Path(d) / "resaved" / "result.yml"
                    save_result(loaded2, again, saving_options=options)
                    shutil.rmtree(moved)
                    loaded3 = load_result(again)
                    vs += compare_results(result, loaded3, options, "re-saved from a loaded result, source folder deleted")
                    vs += check_sources(loaded3, again.parent, "re-saved from a loaded result, source folder deleted")
            except Exception as e:  # noqa: BLE001
                vs.append(V("moved-result-cannot-be-loaded", exc=repr(e)[:300]))
        finally:
            os.chdir(cwd)
    key = {k: case[k] for k in case if k != "seed"}
    return core.ok(key=key, outcome=len(vs), violations=vs)


def check_sources(loaded, folder, where):
    """every dataset of a loaded result (and of its scheme) says it comes from a file inside the folder it was loaded from"""
    vs = []
    folder = Path(folder).resolve()
    for holder, datasets in (("result.data", loaded.data), ("result.scheme.data", loaded.scheme.data)):
        for label, ds in datasets.items():
            sp = ds.attrs.get("source_path")
            ok = sp is not None and Path(sp).resolve().is_file() and folder in Path(sp).resolve().parents
            if not ok:
                vs.append(V("loaded-dataset-does-not-point-into-the-result-folder", holder=holder, dataset=label, source_path=str(sp), where=where))
    return vs


def refs_of(spec):
    out = []
    if isinstance(spec, dict):
        for k, v in spec.items():
            if isinstance(v, str) and (v.endswith((".yml", ".csv", ".nc", ".yaml"))):
                out.append(v)
            else:
                out += refs_of(v)
    elif isinstance(spec, list):
        for v in spec:
            out += refs_of(v)
    return out


# --------------------------------------------------------------------------- (3) datasets
def make_dataset(case):
    import xarray as xr

    nt, ns = case["shape"]
    kind = case["coords"]
    t = {"integers": np.arange(nt, dtype=float), "fractions": 0.1 * np.arange(nt) + 0.2, "tiny": 1e-300 * (1 + np.arange(nt)),
         "negative": -3.0 + 0.7 * np.arange(nt), "descending": 10.0 - 1.5 * np.arange(nt)}[kind]  # fmt: skip
    s = {"integers": 400.0 + np.arange(ns), "fractions": 500.0 + (0.1 + 0.2) * np.arange(ns), "tiny": 1e-300 * (3 + np.arange(ns)),
         "negative": -100.0 + 7.5 * np.arange(ns), "descending": 700.0 - 12.5 * np.arange(ns)}[kind]  # fmt: skip
    vals = core.det_noise((nt, ns), case.get("seed", 0), "c17", nt, ns) * {"unit": 1.0, "big": 1e12, "small": 1e-9}[case["scale"]]
    return xr.DataArray(vals, coords=[("time", t), ("spectral", s)])


def case_netcdf(case):
    import xarray as xr

    from glotaran.io import load_dataset
    from glotaran.io import save_dataset

    da = make_dataset(case)
    ds = da.to_dataset(name="data")
    ds["extra"] = (("spectral",), np.arange(da.shape[1]) * 1.5)
    ds["int_var"] = (("time",), np.arange(da.shape[0], dtype=np.int64))
    ds.attrs["note"] = "hello"
    ds.attrs["number"] = 3.25
    vs = []
    with tempfile.TemporaryDirectory(prefix="vf-c17-") as d, warnings.catch_warnings():
        warnings.simplefilter("ignore")
        f = os.path.join(d, "x", "data.nc")
        save_dataset(ds, f)
        ld = load_dataset(f)
        first_source = str(ld.attrs.get("source_path"))
        # second life: the loaded dataset is saved somewhere else and loaded from there
        f2 = os.path.join(d, "y", "copy.nc")
        save_dataset(ld.load(), f2)
        ld2 = load_dataset(f2)
        if Path(str(ld2.attrs.get("source_path"))).resolve() != Path(f2).resolve():
            vs.append(V("loaded-dataset-source-path-wrong", got=str(ld2.attrs.get("source_path")), want=f2, life="second"))
        for name in ds.data_vars:
            if name not in ld2 or not np.array_equal(ld2[name].values, ds[name].values):
                vs.append(V("netcdf-variable-not-bit-equal", variable=str(name), shape=case["shape"], coords=case["coords"], life="second"))
        # third life: another file is moved onto a path that was loaded before (no glotaran save involved)
        other = ds.copy(deep=True)
        other["data"] = other["data"] * 2.0 + 1.0
        f3 = os.path.join(d, "z", "other.nc")
        save_dataset(other, f3)
        load_dataset(f)  # the path is read once more after the last save ...
        os.replace(f3, f)  # ... then its file is replaced behind the library's back
        ld3 = load_dataset(f)
        if not np.array_equal(ld3["data"].values, other["data"].values):
            vs.append(V("netcdf-load-returns-the-previous-content-of-a-replaced-file", shape=case["shape"], coords=case["coords"]))
        for name in ds.data_vars:
            if name not in ld or ld[name].dims != ds[name].dims or ld[name].dtype != ds[name].dtype or not np.array_equal(ld[name].values, ds[name].values):
                vs.append(V("netcdf-variable-not-bit-equal", variable=str(name), shape=case["shape"], coords=case["coords"]))
        for c in ds.coords:
            if c not in ld.coords or not np.array_equal(ld.coords[c].values, ds.coords[c].values):
                vs.append(V("netcdf-coordinate-not-bit-equal", coordinate=str(c), coords=case["coords"]))
        for k in ("note", "number"):
            if ld.attrs.get(k) != ds.attrs[k]:
                vs.append(V("netcdf-attribute-changed", attribute=k))
        if isinstance(ld, xr.Dataset) and Path(first_source).resolve() != Path(f).resolve():
            vs.append(V("loaded-dataset-source-path-wrong", got=first_source))
    return core.ok(key=[case["shape"], case["coords"], case["scale"]], outcome=len(vs), violations=vs)


def case_ascii(case):
    from glotaran.builtin.io.ascii.wavelength_time_explicit_file import DataFileType
    from glotaran.io import load_dataset
    from glotaran.io import save_dataset

    da = make_dataset(case)
    if case.get("data_dtype") == "int":  # photon counts: integer data on fractional axes
        da = (da * 1000.0 / max(1e-300, float(np.abs(da.values).max()))).round().astype(np.int64)
    elif case.get("data_dtype") == "float32":
        da = da.astype(np.float32)
    fmt = case["number_format"]
    layout = DataFileType.time_explicit if case["layout"] == "time" else DataFileType.wavelength_explicit
    vs = []
    with tempfile.TemporaryDirectory(prefix="vf-c17-") as d, warnings.catch_warnings():
        warnings.simplefilter("ignore")
        f = os.path.join(d, "data.ascii")
        try:
            save_dataset(da, f, file_format=layout, number_format=fmt)
            ld = load_dataset(f, prepare=False)
        except Exception as e:  # noqa: BLE001
            return core.ok(key=None, outcome="raised", violations=[V("ascii-round-trip-raised", layout=case["layout"], exc=repr(e)[:300])])
        prec = float(fmt.split(".")[1].rstrip("ef")) if "." in fmt else 6
        rel = 10.0 ** (-prec) * 2
        for dim in ("time", "spectral"):
            got = np.asarray(ld.coords[dim].values)
            want = da.coords[dim].values
            if got.dtype.kind not in "fi":
                vs.append(V("ascii-axis-not-numeric", dim=dim, layout=case["layout"], dtype=str(got.dtype), example=repr(got[:1])[:80]))
            elif got.shape != want.shape:
                vs.append(V("ascii-axis-length-changed", dim=dim, layout=case["layout"], got=list(got.shape), want=list(want.shape)))
            elif not np.allclose(got, want, rtol=rel, atol=0):
                vs.append(V("ascii-axis-values-changed", dim=dim, layout=case["layout"], got=got[:3], want=want[:3]))
        if not vs:
            gv = (ld["data"] if hasattr(ld, "data_vars") else ld).transpose("time", "spectral").values
            if gv.shape != da.shape:
                vs.append(V("ascii-data-shape-changed", got=list(gv.shape), want=list(da.shape), layout=case["layout"]))
            elif not np.allclose(gv, da.values, rtol=rel, atol=0):
                t_ok = gv.shape == da.values.T.shape and np.allclose(gv, da.values.T, rtol=rel, atol=0)
                vs.append(V("ascii-data-values-changed", layout=case["layout"], transposed=bool(t_ok)))
    return core.ok(key=[case["shape"], case["coords"], case["layout"], fmt, case.get("data_dtype")], outcome=len(vs), violations=vs)


CASE_FUNCS = {"model": case_model, "result": case_result, "netcdf": case_netcdf, "ascii": case_ascii}


def run(run: core.Run):
    quick = run.tier == "quick"
    cases = [{"name": n, "route": "yml_loaded_class"} for n in model_specs()]
    run.map("model", cases)
    res = []
    filters = [None, ["fitted_data", "residual"], ["data"], ["clp", "matrix", "species_associated_spectra"]]
    for nds, weights, penalty in ((1, False, False), (2, True, False), (2, False, True)):
        for df in filters:
            for report in (True, False):
                for target in ("absolute", "relative", "folder", "symlink"):
                    if quick and (nds, weights, penalty) != (2, True, False) and (df not in (None, filters[1]) or target == "relative"):
                        continue
                    res.append({"nds": nds, "weights": weights, "penalty": penalty, "nfev": 3, "data_filter": df, "report": report, "target": target,
                                "resave": df is None, "verbose": nds == 1, "add_svd": df is None and nds == 2})  # fmt: skip
    for method in ("Dogbox", "Levenberg-Marquardt"):
        res.append({"nds": 1, "weights": False, "penalty": False, "nfev": 4, "data_filter": None, "report": True, "target": "absolute",
                    "resave": True, "method": method, "verbose": True})  # fmt: skip
    run.map("result", res, chunksize=1)
    dsets = []
    shapes = [(1, 1), (1, 4), (5, 1), (3, 5), (6, 2), (4, 4)]
    for shape in shapes:
        for coords in ("integers", "fractions", "tiny", "negative", "descending"):
            for scale in ("unit", "big", "small"):
                dsets.append({"shape": list(shape), "coords": coords, "scale": scale, "seed": run.seed})
    run.map("netcdf", dsets)
    asc = []
    for c in dsets:
        if c["coords"] == "tiny":
            continue
        for layout in ("time", "wavelength"):
            for nf in ("%.10e", "%.4e", "%.15e") if not quick else ("%.10e", "%.4e"):
                asc.append(dict(c, layout=layout, number_format=nf))
    for c in dsets:  # integer and single-precision data on fractional / negative axes
        if c["coords"] in ("fractions", "negative") and c["scale"] == "unit":
            for layout in ("time", "wavelength"):
                for dt in ("int", "float32"):
                    asc.append(dict(c, layout=layout, number_format="%.10e" if dt == "int" else "%.6e", data_dtype=dt))
    run.map("ascii", asc)
    run.bounds = {"models": len(model_specs()), "result_configurations": len(res), "saving_options": "data_filter x report", "targets": 3,
                  "dataset_shapes": shapes, "coordinate_kinds": 5, "ascii_number_formats": 2 if quick else 3}  # fmt: skip
    run.rule = (
        "every generator model x construction route saved/loaded (specification + bit-identical objective + idempotent "
        "second save); every result configuration x SavingOptions x target kind saved, loaded, moved, re-saved: parameters, "
        "statistics, histories, bit-equal datasets, relative resolving references; every dataset shape x coordinate kind x "
        "scale through netCDF (bit-equal) and both ASCII layouts x number formats. distinct_nontrivial = distinct cases"
    )
    run.assumptions = ["ASCII comparison tolerance = 2 units of the last written digit"]
