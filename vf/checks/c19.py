"""C19 -- plugin registry: first registration wins, every plugin stays reachable.

E2: breadth-first search over register / set_plugin histories on the three real registries (driven
through the public decorators / set_* / get_* functions inside monkeypatch contexts), against a
reference model; state digest = complete content of the real registry dict.
E4 (thorough + quick): tla/Registry.tla explored by TLC; every edge of the dumped state graph is
replayed against add_plugin_to_registry / set_plugin (see vf/tlc.py).
"""
from __future__ import annotations

import os
import tempfile
import types
import warnings

from vf import core
from vf.core import V
from vf.explore import bfs

LEVEL = "model_checking"

MOD = __name__


# --------------------------------------------------------------------------- harness plugins
def _classes(flavour):
    from glotaran.io.interface import DataIoInterface
    from glotaran.io.interface import ProjectIoInterface

    global _CLS
    try:
        return _CLS[flavour]
    except (NameError, KeyError):
        pass
    if "_CLS" not in globals():
        _CLS = {}
    LOG = []

    def mk(name, base, methods):
        ns = {"__module__": MOD}
        for m in methods:

            def f(self, *a, _m=m, **k):
                LOG.append((type(self).__name__, self.format, _m))
                import xarray as xr

                if _m == "load_dataset":
                    return xr.Dataset({"data": (("a",), [1.0])})
                if _m.startswith("load"):
                    return types.SimpleNamespace(source_path=None)
                return ["saved"]

            ns[m] = f
        return type(name, (base,), ns)

    if flavour == "megacomplex":
        out = {n: type(f"M{n}", (), {"__module__": MOD}) for n in "AB"}
    elif flavour == "data_io":
        out = {n: mk(f"D{n}", DataIoInterface, ["load_dataset", "save_dataset"]) for n in "AB"}
    else:
        meths = [
            "load_model", "save_model", "load_parameters", "save_parameters",
            "load_scheme", "save_scheme", "load_result", "save_result",
        ]  # fmt: skip
        out = {n: mk(f"P{n}", ProjectIoInterface, meths) for n in "AB"}
    out["_log"] = LOG
    _CLS[flavour] = out
    return out


def _api(flavour):
    import glotaran.plugin_system.data_io_registration as d
    import glotaran.plugin_system.megacomplex_registration as m
    import glotaran.plugin_system.project_io_registration as p
    from glotaran.testing import plugin_system as tp

    if flavour == "megacomplex":
        return dict(
            ctx=tp.monkeypatch_plugin_registry_megacomplex,
            reg=lambda names, cls: m.register_megacomplex(names, cls),
            set=m.set_megacomplex_plugin, get=m.get_megacomplex, known=m.known_megacomplex_names,
            is_known=m.is_known_megacomplex, attr="megacomplex",
        )  # fmt: skip
    if flavour == "data_io":
        return dict(
            ctx=tp.monkeypatch_plugin_registry_data_io,
            reg=lambda names, cls: d.register_data_io(names)(cls), mkdec=d.register_data_io,
            set=d.set_data_plugin, get=d.get_data_io, known=d.known_data_formats,
            is_known=d.is_known_data_format, attr="data_io",
        )  # fmt: skip
    return dict(
        ctx=tp.monkeypatch_plugin_registry_project_io,
        reg=lambda names, cls: p.register_project_io(names)(cls), mkdec=p.register_project_io,
        set=p.set_project_plugin, get=p.get_project_io, known=p.known_project_formats,
        is_known=p.is_known_project_format, attr="project_io",
    )  # fmt: skip


def _registry(flavour):
    from glotaran.plugin_system import base_registry

    reg = getattr(base_registry, "__PluginRegistry")
    return getattr(reg, _api(flavour)["attr"])


# --------------------------------------------------------------------------- alphabet
SHORTS = ["x", "x_b"]  # the second name extends the first by "_<suffix>" (full names are "<class path>_<format>")


def full_of(flavour, cls_letter, short=None):
    cls = _classes(flavour)[cls_letter]
    base = f"{cls.__module__}.{cls.__name__}"
    return base if flavour == "megacomplex" else f"{base}_{short}"


def alphabet(flavour):
    inst = flavour != "megacomplex"
    ev = []
    for s in SHORTS:
        for c in "AB":
            ev.append(["reg", s, c])
    if inst:
        ev += [["reg", ["x", "x_b"], "A"], ["reg", ["x_b", "x"], "B"]]
        # "regd": the decorator object was created before the registry context was entered and is applied inside
        ev += [["regd", "x", "A"], ["regd", "x_b", "B"]]
    ev.append(["reg", "x.y", "A"])
    for s in SHORTS:
        for c in "AB":
            if inst:
                for s2 in SHORTS:
                    ev.append(["set", s, ["full", c, s2]])
            else:
                ev.append(["set", s, ["full", c, None]])
    ev += [["set", "x", ["raw", "nope.Unknown"]], ["set", "x", ["raw", "x_b"]], ["set", "x.y", ["full", "A", "x"]]]
    return ev


# --------------------------------------------------------------------------- reference model
class RefModel:
    """The statement read literally: short -> first registered plugin unless pinned; full -> plugin."""

    def __init__(self, inst):
        self.inst = inst
        self.short: dict = {}
        self.full: dict = {}

    def apply(self, ev):
        """returns (expected exception type or None, expected number of overwrite warnings)"""
        if ev[0] in ("reg", "regd"):
            names = ev[1] if isinstance(ev[1], list) else [ev[1]]
            warns = 0
            for s in names:
                if "." in s:
                    return ValueError, warns
                pid = (ev[2], s) if self.inst else ev[2]
                if s in self.short:
                    old = self.short[s]
                    if (old[0] if self.inst else old) != ev[2]:
                        warns += 1
                else:
                    self.short[s] = pid
                self.full[(ev[2], s) if self.inst else (ev[2], None)] = pid
            return None, warns
        if ev[0] == "set":
            s, tgt = ev[1], ev[2]
            if "." in s:
                return ValueError, 0
            if tgt[0] == "raw":
                return ValueError, 0  # unknown full name, or a short name used as target
            key = (tgt[1], tgt[2] if self.inst else None)
            if key not in self.full:
                return ValueError, 0
            self.short[s] = self.full[key]
            return None, 0
        raise AssertionError(ev)


def plugin_id(flavour, plugin):
    if flavour == "megacomplex":
        return plugin.__name__[1:] if isinstance(plugin, type) else repr(plugin)
    return [type(plugin).__name__[1:], plugin.format]


def real_state(flavour):
    return sorted((k, plugin_id(flavour, v)) for k, v in _registry(flavour).items())


def apply_real(flavour, api, ev, decorator=None):
    from glotaran.plugin_system.base_registry import PluginOverwriteWarning

    exc = None
    with warnings.catch_warnings(record=True) as w:
        warnings.simplefilter("always")
        try:
            if ev[0] == "reg":
                api["reg"](ev[1], _classes(flavour)[ev[2]])
            elif ev[0] == "regd":
                decorator(_classes(flavour)[ev[2]])
            else:
                tgt = ev[2]
                name = tgt[1] if tgt[0] == "raw" else full_of(flavour, tgt[1], tgt[2])
                api["set"](ev[1], name)
        except Exception as e:  # noqa: BLE001
            exc = e
    nw = sum(1 for x in w if issubclass(x.category, PluginOverwriteWarning))
    return exc, nw, [str(x.message) for x in w if issubclass(x.category, PluginOverwriteWarning)]


def observe(flavour, api, model: RefModel, dispatch_dir=None):
    """Compare every lookup with the reference model. Returns list of violations."""
    vs = []
    inst = flavour != "megacomplex"
    mid = (lambda p: list(p)) if inst else (lambda p: p)
    # short names (registered and never registered)
    for s in SHORTS + ["z"]:
        try:
            got = plugin_id(flavour, api["get"](s))
            err = None
        except ValueError as e:
            got, err = None, str(e)
        except Exception as e:  # noqa: BLE001
            got, err = None, None
            vs.append(V("lookup-wrong-exception", name=s, exc=repr(e)))
        want = model.short.get(s)
        if want is None:
            if got is not None:
                vs.append(V("lookup-unknown-name-resolved", name=s, got=got))
            elif err is not None:
                missing = [k for k in model.short if repr(k) not in err]
                if missing:
                    vs.append(V("lookup-error-does-not-name-known", name=s, message=err, missing=missing))
        elif got != mid(want):
            vs.append(V("short-name-resolves-to-wrong-plugin", name=s, got=got, want=want))
        if api["is_known"](s) != (want is not None):
            vs.append(V("is-known-disagrees", name=s))
    # full names: every plugin ever registered stays reachable
    for (c, s), want in model.full.items():
        name = full_of(flavour, c, s)
        try:
            got = plugin_id(flavour, api["get"](name))
        except Exception as e:  # noqa: BLE001
            vs.append(V("registered-plugin-unreachable-under-full-name", name=name, exc=repr(e)))
            continue
        if got != mid(want):
            vs.append(V("full-name-resolves-to-wrong-plugin", name=name, got=got, want=want))
    known = api["known"]()
    if known != sorted(model.short):
        vs.append(V("registered-plugins-list-wrong", got=known, want=sorted(model.short)))
    knownf = api["known"](full_names=True)
    for (c, s) in model.full:
        if full_of(flavour, c, s) not in knownf:
            vs.append(V("full-names-list-incomplete", missing=full_of(flavour, c, s)))
    if dispatch_dir is not None and inst:
        vs += dispatch(flavour, api, model, dispatch_dir)
    return vs


def dispatch(flavour, api, model, d):
    """load_*/save_* with explicit and inferred formats must reach the plugin the registry resolves."""
    import glotaran.plugin_system.data_io_registration as dm
    import glotaran.plugin_system.project_io_registration as pm
    import xarray as xr

    vs = []
    log = _classes(flavour)["_log"]
    if flavour == "data_io":
        calls = [
            ("load_dataset", lambda f, fmt: dm.load_dataset(f, format_name=fmt), True),
            ("save_dataset", lambda f, fmt: dm.save_dataset(xr.Dataset({"data": (("a",), [1.0])}), f, format_name=fmt, allow_overwrite=True), False),
        ]  # fmt: skip
    else:
        ns = types.SimpleNamespace(source_path=None)
        calls = [
            ("load_model", lambda f, fmt: pm.load_model(f, format_name=fmt), True),
            ("save_model", lambda f, fmt: pm.save_model(ns, f, format_name=fmt, allow_overwrite=True), False),
            ("load_parameters", lambda f, fmt: pm.load_parameters(f, format_name=fmt), True),
            ("save_parameters", lambda f, fmt: pm.save_parameters(ns, f, format_name=fmt, allow_overwrite=True), False),
            ("load_scheme", lambda f, fmt: pm.load_scheme(f, format_name=fmt), True),
            ("save_scheme", lambda f, fmt: pm.save_scheme(ns, f, format_name=fmt, allow_overwrite=True), False),
            ("load_result", lambda f, fmt: pm.load_result(f, format_name=fmt), True),
            ("save_result", lambda f, fmt: pm.save_result(ns, f, format_name=fmt, allow_overwrite=True), False),
        ]  # fmt: skip
    targets = []
    for s in SHORTS + ["z"]:
        targets.append((os.path.join(d, "f." + s), None, model.short.get(s)))  # inferred from suffix
        targets.append((os.path.join(d, "g.other"), s, model.short.get(s)))  # explicit short
    for (c, s), want in model.full.items():
        targets.append((os.path.join(d, "g.other"), full_of(flavour, c, s), want))
    for meth, fn, _needs in calls:
        for path, fmt, want in targets:
            del log[:]
            try:
                fn(path, fmt)
                err = None
            except ValueError as e:
                err = e
            except Exception as e:  # noqa: BLE001
                vs.append(V("dispatch-wrong-exception", method=meth, path=os.path.basename(path), fmt=fmt, exc=repr(e)))
                continue
            if want is None:
                if log:
                    vs.append(V("dispatch-reached-plugin-for-unknown-format", method=meth, fmt=fmt, log=list(log)))
            else:
                exp = [("D" if flavour == "data_io" else "P") + want[0], want[1], meth]
                if [list(x) for x in log] != [exp]:
                    vs.append(
                        V("dispatch-reached-wrong-plugin", method=meth, path=os.path.basename(path), fmt=fmt,
                          got=list(log), want=exp, err=repr(err))
                    )  # fmt: skip
    return vs


# --------------------------------------------------------------------------- E2 case functions
def run_history(flavour, history, dispatch_dir=None):
    """Replay a history on a fresh registry through the public API; oracle after every event."""
    api = _api(flavour)
    model = RefModel(flavour != "megacomplex")
    vs = []
    outcome = None
    # decorator objects of "regd" events exist before the fresh registry does
    decorators = {i: api["mkdec"](ev[1]) for i, ev in enumerate(history) if ev[0] == "regd"}
    outer = real_state(flavour)
    with api["ctx"]({}, create_new_registry=True):
        for i, ev in enumerate(history):
            before = real_state(flavour)
            want_exc, want_warn = model.apply(ev)
            exc, nw, msgs = apply_real(flavour, api, ev, decorators.get(i))
            last = i == len(history) - 1
            if want_exc is None and exc is not None:
                vs.append(V("valid-operation-raised", event=ev, exc=repr(exc)))
            elif want_exc is not None and not isinstance(exc, want_exc):
                vs.append(V("invalid-operation-not-rejected-with-ValueError", event=ev, exc=repr(exc)))
            elif want_exc is not None and ev[0] == "set" and real_state(flavour) != before:
                vs.append(V("rejected-operation-changed-registry", event=ev))
            # the statement says a conflicting registration warns: at least one warning per conflicting name, none without conflict
            if want_exc is None and (nw < want_warn or (want_warn == 0 and nw)):
                vs.append(V("overwrite-warning-count", event=ev, got=nw, want=want_warn, messages=msgs))
            if last:
                outcome = [type(exc).__name__ if exc else None, nw]
                vs += observe(flavour, api, model, dispatch_dir if last else None)
        state = real_state(flavour)
    if real_state(flavour) != outer:
        vs.append(V("registration-inside-context-leaked-into-outer-registry"))
    return core.digest(state), vs, {"outcome": outcome, "state": state}


def case_bfs(case):
    flavour, depth = case["flavour"], case["depth"]
    alpha = alphabet(flavour)
    with tempfile.TemporaryDirectory(prefix="vf-c19-") as d:
        for s in SHORTS + ["z"]:
            open(os.path.join(d, "f." + s), "w").close()
        open(os.path.join(d, "g.other"), "w").close()

        def build(hist):
            return run_history(flavour, hist, d)

        r = bfs(lambda h, info: alpha, build, depth)
    vs = []
    for v in r["violations"]:
        h = v.pop("history")
        vs.append(dict(v, func="history", case={"flavour": flavour, "history": h}))
    sample = max(r["state_histories"].values(), key=len)
    return core.ok(
        key=None, outcome={"flavour": flavour, "states": r["states"], "closed": r["closed"]}, violations=vs,
        states=r["states"], transitions=r["transitions"], traces=r["transitions"], max_depth=r["max_depth"],
        closed=r["closed"], n_outcomes=len(r["outcomes"]), sample=sample,
        conflict_histories=sum(1 for o in r["outcomes"] if o and not o.endswith(" 0]")),
    )  # fmt: skip


def case_history(case):
    with tempfile.TemporaryDirectory(prefix="vf-c19-") as d:
        for s in SHORTS + ["z"]:
            open(os.path.join(d, "f." + s), "w").close()
        open(os.path.join(d, "g.other"), "w").close()
        dg, vs, info = run_history(case["flavour"], case["history"], d)
    return core.ok(key=dg, outcome=info["outcome"], violations=vs)


def case_infer(case):
    """infer_file_format + yml->yaml aliasing, folders, missing files, on recording project/data plugins."""
    import glotaran.plugin_system.data_io_registration as dm
    import glotaran.plugin_system.project_io_registration as pm
    from glotaran.plugin_system.io_plugin_utils import infer_file_format

    vs = []
    with tempfile.TemporaryDirectory(prefix="vf-c19-") as d:
        f = os.path.join(d, case["name"])
        if case["exists"] == "file":
            open(f, "w").close()
        elif case["exists"] == "dir":
            os.mkdir(f)
        suffix = os.path.splitext(case["name"])[1].lstrip(".")
        for needs in (True, False):
            for allow_folder in (True, False):
                try:
                    got = infer_file_format(f, needs_to_exist=needs, allow_folder=allow_folder)
                except ValueError:
                    got = ValueError
                if case["exists"] != "file" and needs and not allow_folder:
                    want = ValueError
                elif suffix:
                    want = "yaml" if suffix == "yml" else suffix
                elif allow_folder:
                    want = "yaml"
                else:
                    want = ValueError
                if got != want:
                    vs.append(V("infer-file-format", needs=needs, allow_folder=allow_folder, got=repr(got), want=repr(want)))
        # dispatch of inferred format through recording plugins registered under the inferred name
        for flavour in ("data_io", "project_io"):
            api = _api(flavour)
            log = _classes(flavour)["_log"]
            with api["ctx"]({}, create_new_registry=True):
                fmt = ("yaml" if suffix == "yml" else suffix) or "yaml"
                if "." in fmt:
                    continue
                api["reg"](fmt, _classes(flavour)["A"])
                api["reg"]("decoy", _classes(flavour)["B"])
                del log[:]
                try:
                    if flavour == "data_io":
                        dm.load_dataset(f)
                    else:
                        pm.load_result(f)
                    err = None
                except ValueError as e:
                    err = e
                exists_ok = case["exists"] == "file" or (flavour == "project_io" and (suffix or True))
                if flavour == "data_io":
                    should = case["exists"] == "file" and bool(suffix)
                else:
                    should = True  # load_result allows folders / missing suffix (-> yaml)
                reached = [list(x) for x in log]
                want = [[("D" if flavour == "data_io" else "P") + "A", fmt, "load_dataset" if flavour == "data_io" else "load_result"]]
                if should and reached != want:
                    vs.append(V("inferred-dispatch-wrong", flavour=flavour, reached=reached, want=want, err=repr(err)))
                if not should and reached:
                    vs.append(V("inferred-dispatch-should-have-been-refused", flavour=flavour, reached=reached))
                del exists_ok
    return core.ok(key=case, outcome=len(vs), violations=vs)


def case_tlc_edge(case):
    from vf import tlc

    return tlc.case_tlc_edge(case)


CASE_FUNCS = {"bfs": case_bfs, "history": case_history, "infer": case_infer, "tlc_edge": case_tlc_edge}


def run(run: core.Run):
    depth = 12  # the search closes at depth 7-8: all reachable states are visited in both tiers
    run.bounds = {"shorts": SHORTS, "classes": 2, "max_depth": depth, "flavours": 3}
    run.rule = (
        "E2 BFS over register/set_plugin histories on a fresh real registry per flavour (megacomplex, data_io, "
        "project_io) through the public API; state = complete sorted (key, plugin-id) content of the registry "
        "dict; oracle = reference model (first registration wins / pinned / full names) compared on every "
        "lookup, warning count, known-names list and load_*/save_* dispatch after every transition. "
        "distinct_nontrivial = distinct reachable registry states + distinct inference cases"
    )
    run.assumptions = [
        "plugin identity = (class, format name); two instances of one class with one format are interchangeable",
        "the bare '<module>.<Class>' key the implementation adds for instantiated plugins is not observed",
    ]
    closed_all = True
    flavours = ("megacomplex", "data_io", "project_io")
    pool = run.pool()
    args = [("bfs", {"flavour": f, "depth": depth}) for f in flavours]
    results = pool.map(core._call, args) if pool else [core._call(a) for a in args]
    for flavour, (_, case, res) in zip(flavours, results):
        run.absorb("bfs", case, res, part=f"bfs-{flavour}")
        closed_all &= bool(res.get("closed"))
        run.extra[f"closed_{flavour}"] = res.get("closed")
        run.extra[f"distinct_outcomes_{flavour}"] = res.get("n_outcomes")
        if res.get("sample"):
            run.samples.append({"flavour": flavour, "history": res["sample"]})
        # each distinct state counts as a distinct non-trivial case
        for i in range(res.get("states", 0)):
            run.keys.add(f"{flavour}-state-{i}")
    # (extensions that are substrings of "yml" / "yaml" are extensions of their own)
    names = ["a.yml", "a.yaml", "a.x", "a", "a.b.x", ".x", "dir.x/", "nodir", "a.y", "a.ml", "a.ym", "a.l", "a.am", "a.ymlx"]
    cases = []
    for n in names:
        for ex in ("file", "dir", "missing"):
            if n.endswith("/") and ex == "file":
                continue
            cases.append({"name": n.rstrip("/"), "exists": ex})
    run.map("infer", cases)
    run.exhaustive = closed_all
    run.extra["search_closed_all_reachable_states_visited"] = closed_all
    if run.tier == "thorough" or os.environ.get("VERIF_TLC", "1") == "1":
        try:
            from vf import tlc

            tlc.run_registry(run)
        except Exception as e:  # noqa: BLE001  - TLC unavailable is reported, not hidden
            run.extra["tlc_error"] = repr(e)[:300]
