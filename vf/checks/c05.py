"""C05 -- Gaussian IRF convolution is exact, for every index of a dispersed or shifted IRF.

Part 1 (kernel): the real kernel on a grid of rate x width x time (relative to the centre, in widths, including the
points that straddle the erf/erfcx branch switch) against an independent evaluation of
int_0^inf exp(-k s) N(t-s; mu, sigma) ds  =  exp(k(mu-t) + k^2 sigma^2/2 + log Phi((t-mu-k sigma^2)/sigma))
computed in log space with scipy.special.log_ndtr (a different special-function path from erf/erfcx), itself
cross-validated against adaptive quadrature on a sub-grid.
Part 2 (binding): through the decay megacomplexes - multi-Gaussian broadcasting / scales / normalisation, and for
shifted / dispersed IRFs the matrix at every global index against the index-independent matrix of a plain IRF placed
at the reference effective centre and width of that index.
"""
from __future__ import annotations

import itertools
import math

import numpy as np
from scipy import integrate
from scipy import special

from vf import core
from vf.core import V
from vf.gen import builtin_models as B

LEVEL = "exploration"

RATES = [1e-4, 1e-3, 1e-2, 0.05, 0.2, 1.0, 3.0, 10.0, 30.0, 100.0, 300.0, 1e3, 0.5]
WIDTHS = [1e-3, 1e-2, 0.05, 0.2, 0.5, 1.0, 2.0, 5.0, 10.0]
REL_TIMES = [-100, -30, -10, -6, -3, -1, 0, 1, 3, 10, 100, 1000]
SQRT2 = math.sqrt(2.0)


def ref_kernel(k, mu, sigma, t):
    """log-space evaluation; returns array like t"""
    t = np.asarray(t, dtype=float)
    z = (t - mu - k * sigma * sigma) / sigma
    logv = k * (mu - t) + 0.5 * (k * sigma) ** 2 + special.log_ndtr(z)
    return np.exp(logv)


def quad_kernel(k, mu, sigma, t):
    f = lambda s: math.exp(-k * s) * math.exp(-0.5 * ((t - s - mu) / sigma) ** 2) / (sigma * math.sqrt(2 * math.pi))  # noqa: E731
    s0 = t - mu - k * sigma * sigma  # the integrand is a Gaussian in s centred here (completing the square)
    lo = max(0.0, s0 - 12 * sigma)
    hi = max(0.0, s0 + 12 * sigma) + 12 * sigma
    pts = [p for p in (s0,) if lo < p < hi]
    v, e = integrate.quad(f, lo, hi, points=pts or None, limit=200, epsabs=0, epsrel=1e-12)
    return v, e


def times_for(k, mu, sigma):
    ts = [mu + r * sigma for r in REL_TIMES]
    # branch switch: (t-mu)/(sigma sqrt2) - k sigma/sqrt2 == -1
    tb = mu + sigma * SQRT2 * (k * sigma / SQRT2 - 1.0)
    for d in (-1e-3, -1e-9, 0.0, 1e-9, 1e-3):
        ts.append(tb + d * sigma)
    return np.array(ts)


def case_kernel(case):
    from glotaran.builtin.megacomplexes.decay.decay_matrix_gaussian_irf import calculate_decay_matrix_gaussian_irf_on_index

    sigma, mu = case["width"], case["center"]
    vs = []
    n = 0
    branches = set()
    for k in case["rates"]:
        t = times_for(k, mu, sigma)
        M = np.zeros((t.size, 1))
        calculate_decay_matrix_gaussian_irf_on_index(M, np.array([k]), t, np.array([mu]), np.array([sigma]), np.array([1.0]), False, 1.0)
        got = M[:, 0]
        want = ref_kernel(k, mu, sigma, t)
        n += t.size
        thresh = (t - mu) / (sigma * SQRT2) - k * sigma / SQRT2
        branches |= {bool(x < -1) for x in thresh}
        # the log-space reference itself cancels large terms: its relative error is ~ eps * (sum of the magnitudes)
        z = (t - mu - k * sigma * sigma) / sigma
        mag = np.abs(k * (mu - t)) + 0.5 * (k * sigma) ** 2 + np.abs(special.log_ndtr(z))
        tol = (1e-9 + 16 * np.finfo(float).eps * mag) * np.abs(want) + 1e-290
        bad = np.nonzero(~(np.abs(got - want) <= tol))[0]
        if bad.size:
            i = int(bad[0])
            vs.append(V("decay-kernel-differs-from-independent-convolution", rate=k, width=sigma, center=mu, t=float(t[i]),
                        t_minus_center_in_widths=float((t[i] - mu) / sigma), got=float(got[i]), want=float(want[i]),
                        branch="erfcx" if thresh[i] < -1 else "erf", n_bad=int(bad.size)))  # fmt: skip
        if case.get("quad"):
            for tt in t[:: max(1, t.size // 6)]:
                qv, qe = quad_kernel(k, mu, sigma, float(tt))
                rv = float(ref_kernel(k, mu, sigma, tt))
                zz = (tt - mu - k * sigma * sigma) / sigma
                mg = abs(k * (mu - tt)) + 0.5 * (k * sigma) ** 2 + abs(float(special.log_ndtr(zz)))
                if abs(qv - rv) > (1e-7 + 16 * np.finfo(float).eps * mg) * max(abs(rv), abs(qv)) + 10 * qe + 1e-280:
                    vs.append(V("harness-reference-disagrees-with-quadrature", rate=k, width=sigma, t=float(tt), quad=qv, ref=rv, quad_err=qe))
    return core.ok(key=[sigma, mu], outcome=[sorted(branches), len(vs)], violations=vs, payload={"points": n})


# --------------------------------------------------------------------------- through the megacomplexes
def irf_model(irf, n_comp=2, kind="parallel"):
    names = [f"s{i+1}" for i in range(n_comp)]
    return {
        "megacomplex": {"m1": {"type": f"decay-{kind}", "compartments": names, "rates": [f"k.{i+1}" for i in range(n_comp)]}},
        "irf": {"irf1": irf},
        "dataset": {"d1": {"megacomplex": ["m1"], "irf": "irf1"}},
    }


TIMES = np.array([-2.0, -0.5, -0.1, 0.0, 0.05, 0.2, 0.7, 2.0, 9.0, 40.0])


def case_multi(case):
    """multi-Gaussian: broadcasting of centres/widths, scales, normalisation  ==  sum of single Gaussians"""
    centers, widths, scales, normalize = case["centers"], case["widths"], case["scales"], case["normalize"]
    rates = [0.3, 4.0]
    vals = {"k.1": rates[0], "k.2": rates[1]}
    irf = {"type": "multi-gaussian", "center": [], "width": [], "normalize": normalize}
    for i, c in enumerate(centers):
        vals[f"c.{i+1}"] = c
        irf["center"].append(f"c.{i+1}")
    for i, w in enumerate(widths):
        vals[f"w.{i+1}"] = w
        irf["width"].append(f"w.{i+1}")
    if scales is not None:
        irf["scale"] = []
        for i, s in enumerate(scales):
            vals[f"sc.{i+1}"] = s
            irf["scale"].append(f"sc.{i+1}")
    # primed by the sibling with the normalisation flag flipped (same process, same shapes)
    labels, M, _, _ = B.calc_matrix(irf_model(irf), vals, "d1", [1.0, 2.0], TIMES, prime=[(irf_model(dict(irf, normalize=not normalize)), vals)])
    n = max(len(centers), len(widths))
    cs = centers if len(centers) == n else centers * n
    ws = widths if len(widths) == n else widths * n
    ss = scales if scales is not None else [1.0] * n
    want = np.zeros((TIMES.size, 2))
    for c, w, s in zip(cs, ws, ss):
        for j, k in enumerate(rates):
            want[:, j] += s * ref_kernel(k, c, w, TIMES)
    if normalize:
        want /= sum(ss)
    want *= 0.5  # decay-parallel: every compartment starts with 1/n
    vs = []
    if M.shape != want.shape or np.abs(M - want).max() > 1e-9 * np.abs(want).max():
        vs.append(V("multi-gaussian-irf-not-the-weighted-sum-of-single-gaussians", centers=centers, widths=widths, scales=scales,
                    normalize=normalize, max_abs=float(np.abs(M - want).max()) if M.shape == want.shape else None))  # fmt: skip
    return core.ok(key=[centers, widths, scales, normalize], outcome=len(vs), violations=vs)


def effective(case, lam):
    """reference effective centres / widths at wavelength lam"""
    lc = case["dispersion_center"]
    d = (1e3 / lam - 1e3 / lc) if case["wavenumber"] else (lam - lc) / 100.0
    cs = [c + sum(co * d ** (p + 1) for p, co in enumerate(case["center_coeffs"])) for c in case["centers"]]
    ws = [w + sum(co * d ** (p + 1) for p, co in enumerate(case["width_coeffs"])) for w in case["widths"]]
    return cs, ws


def case_index(case):
    """matrix at index i of a shifted / dispersed IRF == plain-IRF matrix at index i's effective centre and width"""
    axis = case["axis"]
    rates = [0.3, 4.0]
    vals = {"k.1": rates[0], "k.2": rates[1]}
    disp = case["center_coeffs"] or case["width_coeffs"] or case.get("force_spectral")
    irf = {"type": "spectral-multi-gaussian" if disp else "multi-gaussian", "center": [], "width": [], "normalize": case["normalize"]}
    for i, c in enumerate(case["centers"]):
        vals[f"c.{i+1}"] = c
        irf["center"].append(f"c.{i+1}")
    for i, w in enumerate(case["widths"]):
        vals[f"w.{i+1}"] = w
        irf["width"].append(f"w.{i+1}")
    if case["scales"] is not None:
        irf["scale"] = []
        for i, s in enumerate(case["scales"]):
            vals[f"sc.{i+1}"] = s
            irf["scale"].append(f"sc.{i+1}")
    if disp:
        vals["dc"] = case["dispersion_center"]
        irf["dispersion_center"] = "dc"
        irf["center_dispersion_coefficients"] = []
        for i, co in enumerate(case["center_coeffs"]):
            vals[f"cd.{i+1}"] = co
            irf["center_dispersion_coefficients"].append(f"cd.{i+1}")
        irf["width_dispersion_coefficients"] = []
        for i, co in enumerate(case["width_coeffs"]):
            vals[f"wd.{i+1}"] = co
            irf["width_dispersion_coefficients"].append(f"wd.{i+1}")
        irf["model_dispersion_with_wavenumber"] = case["wavenumber"]
    if case["shifts"] is not None:
        irf["shift"] = []
        for i, s in enumerate(case["shifts"]):
            vals[f"sh.{i+1}"] = s
            irf["shift"].append(f"sh.{i+1}")
    kind = case.get("kind", "parallel")
    labels, M, mc, ds = B.calc_matrix(irf_model(irf, kind=kind), vals, "d1", axis, TIMES,
                                      prime=[(irf_model(dict(irf, normalize=not case["normalize"]), kind=kind), vals)])  # fmt: skip
    vs = []
    index_dependent = case["shifts"] is not None or bool(disp)
    # history: the filled dataset model that has been evaluated once is evaluated again on another axis of the same
    # length, and again after its parameters moved; each must equal the evaluation of a freshly filled model
    if len(axis) > 1:
        other = [float(a) for a in axis[::-1]] if list(axis[::-1]) != list(axis) else [float(a) + 7.0 for a in axis]
        _, again = mc.calculate_matrix(ds, np.asarray(other, dtype=float), np.asarray(TIMES, dtype=float))
        _, fresh, _, _ = B.calc_matrix(irf_model(irf, kind=kind), vals, "d1", other, TIMES)
        if not np.array_equal(np.asarray(again), fresh):
            vs.append(V("second-evaluation-of-a-filled-model-on-another-axis-differs-from-fresh-evaluation",
                        max_abs=float(np.abs(np.asarray(again) - fresh).max()) if np.shape(again) == fresh.shape else None))  # fmt: skip
    moved = dict(vals)
    for p in ds.irf.center if isinstance(ds.irf.center, list) else [ds.irf.center]:
        moved[p.label] = p.value + 0.21
        p.value = moved[p.label]
    _, again = mc.calculate_matrix(ds, np.asarray(axis, dtype=float), np.asarray(TIMES, dtype=float))
    _, fresh, _, _ = B.calc_matrix(irf_model(irf, kind=kind), moved, "d1", axis, TIMES)
    if not np.array_equal(np.asarray(again), fresh):
        vs.append(V("evaluation-after-parameters-moved-differs-from-fresh-evaluation",
                    max_abs=float(np.abs(np.asarray(again) - fresh).max()) if np.shape(again) == fresh.shape else None))  # fmt: skip
    if index_dependent and M.ndim != 3:
        return core.ok(key=None, outcome="2d", violations=[V("index-dependent-irf-gives-index-independent-matrix", shape=list(M.shape))])
    for i, lam in enumerate(axis):
        cs, ws = effective(case, lam) if disp else (list(case["centers"]), list(case["widths"]))
        sh = case["shifts"][i] if case["shifts"] is not None else 0.0
        n = max(len(cs), len(ws))
        cs = cs if len(cs) == n else cs * n
        ws = ws if len(ws) == n else ws * n
        # the same implementation, index independent, at the reference effective position
        v2 = {"k.1": rates[0], "k.2": rates[1]}
        plain = {"type": "multi-gaussian", "center": [], "width": [], "normalize": case["normalize"]}
        for g in range(n):
            v2[f"c.{g+1}"] = cs[g] - sh
            v2[f"w.{g+1}"] = ws[g]
            plain["center"].append(f"c.{g+1}")
            plain["width"].append(f"w.{g+1}")
        if case["scales"] is not None:
            plain["scale"] = []
            for g, s in enumerate(case["scales"]):
                v2[f"sc.{g+1}"] = s
                plain["scale"].append(f"sc.{g+1}")
        _, P, _, _ = B.calc_matrix(irf_model(plain, kind=kind), v2, "d1", [lam], TIMES)
        Mi = M[i] if M.ndim == 3 else M
        scale = max(1e-300, np.abs(P).max())
        if Mi.shape != P.shape or np.abs(Mi - P).max() > 1e-12 * scale:
            vs.append(V("matrix-at-index-not-the-plain-irf-matrix-at-its-effective-position", index=i, coordinate=lam,
                        effective_centers=[c - sh for c in cs], effective_widths=ws, max_abs=float(np.abs(Mi - P).max()),
                        center_order=len(case["center_coeffs"]), width_order=len(case["width_coeffs"]), shift=case["shifts"] is not None,
                        wavenumber=case["wavenumber"]))  # fmt: skip
            break
    if disp and not vs:
        # the result reports, per Gaussian and global index, the centre the matrix was built with (before the shift)
        import warnings

        from glotaran.optimization.optimize import optimize

        data = {"d1": B.noisy_dataset(TIMES, np.asarray(axis, dtype=float), seed=2, salt="c05")}
        scheme = B.make_scheme(irf_model(irf, kind=kind), vals, data, options={l: {"vary": False} for l in vals if not l.startswith("k.")})
        with warnings.catch_warnings():
            warnings.simplefilter("ignore")
            res = optimize(scheme, verbose=False, raise_exception=True)
        rep = res.data["d1"]
        if "irf_center_location" not in rep:
            vs.append(V("dispersed-irf-centres-not-reported"))
        else:
            loc = rep["irf_center_location"].transpose("irf_nr", "spectral").values
            for i, lam in enumerate(axis):
                cs, _ = effective(case, lam)
                got = [float(x) for x in loc[:, i]]
                want = cs if len(cs) == len(got) else cs * len(got)
                if len(got) != len(want) or max(abs(a - b) for a, b in zip(got, want)) > 1e-12 * max(1.0, max(abs(b) for b in want)):
                    vs.append(V("reported-irf-centre-differs-from-the-centre-the-matrix-was-built-with", index=i, coordinate=lam, got=got, want=want,
                                wavenumber=case["wavenumber"]))  # fmt: skip
                    break
    key = {k: case[k] for k in case if k != "seed"}
    return core.ok(key=key if index_dependent else None, outcome=len(vs), violations=vs)


CASE_FUNCS = {"kernel": case_kernel, "multi": case_multi, "index": case_index}


def run(run: core.Run):
    quick = run.tier == "quick"
    rates = RATES[::2] if quick else RATES
    widths = WIDTHS[::2] if quick else WIDTHS
    cases = []
    for w in widths:
        for mu in (0.0, 0.37, -5.0) if not quick else (0.0, 0.37):
            cases.append({"width": w, "center": mu, "rates": rates, "quad": mu == 0.37})
    run.map("kernel", cases)
    run.extra["kernel_points"] = sum(p["points"] for _, p in run.payloads.get("kernel", []))
    multi = []
    patterns = [([0.1], [0.2]), ([0.1], [0.2, 0.5]), ([0.1, 0.4], [0.2]), ([0.1, 0.4], [0.2, 0.5]), ([0.1], [0.05, 0.2, 1.0]),
                ([0.0, 0.3, 1.0], [0.3]), ([0.0, 0.3, 1.0], [0.05, 0.2, 1.0])]  # fmt: skip
    for cs, ws in patterns:
        n = max(len(cs), len(ws))
        for scales in (None, [1.0, 0.25, 3.0][:n], [2.0] * n):
            for normalize in (True, False):
                multi.append({"centers": cs, "widths": ws, "scales": scales, "normalize": normalize})
    run.map("multi", multi)
    idx = []
    axes = [[600.0, 650.0, 700.0], [500.0, 510.0, 640.0, 800.0], [700.0, 650.0, 600.0]] + ([] if quick else [[650.0], [1.0, 2.0, 3.0]])
    for axis in axes:
        for shifts in (None, [0.05 * (i + 1) * (-1) ** i for i in range(len(axis))]):
            for co in range(0, 4):
                for wo in range(0, 3):
                    for wn in (False, True):
                        if co == 0 and wo == 0 and (shifts is None or wn):
                            continue
                        for cs, ws, sc in (([0.1], [0.2], None), ([0.1], [0.2, 0.5], [1.0, 0.3]), ([0.1, 0.4], [0.2, 0.5], [1.0, 0.3])):
                            if quick and len(ws) > 1 and (co > 2 or wn):
                                continue
                            idx.append({"axis": axis, "shifts": shifts, "centers": cs, "widths": ws, "scales": sc, "normalize": True,
                                        "dispersion_center": 650.0 if axis[0] > 100 else 2.0, "wavenumber": wn,
                                        "center_coeffs": [0.3, -0.2, 0.1][:co], "width_coeffs": [0.05, 0.02][:wo],
                                        "kind": "parallel" if len(idx) % 2 == 0 else "sequential"})  # fmt: skip
    run.map("index", idx)
    run.bounds = {"rates": rates, "widths": widths, "relative_times": REL_TIMES, "branch_switch_offsets": [-1e-3, -1e-9, 0, 1e-9, 1e-3],
                  "gaussians": "1-3 with the three broadcasting patterns", "center_dispersion_order": "0-3", "width_dispersion_order": "0-2",
                  "global_axes": axes}  # fmt: skip
    run.rule = (
        "kernel: every rate x width x (relative times + branch-switch straddle points) x centre against the log-space "
        "reference (cross-validated by quadrature); megacomplex level: all broadcasting/scale/normalise patterns, and every "
        "(axis x shift x centre-order x width-order x dispersion variable x Gaussian pattern) with the per-index matrix compared "
        "to the plain-IRF matrix at the reference effective position. distinct_nontrivial = distinct kernel (width, centre) "
        "lines and index-dependent configurations"
    )
    run.assumptions = ["backsweep is not part of the statement and stays disabled", "finite grids (DESIGN section 5)"]
