"""C04 -- decay matrices are the solution of the compartmental rate equations.

E1: every compartmental structure on N <= 3 compartments (all subsets of the N^2 possible entries), rate patterns
from a six-decade ladder, split over 1-2 K-matrices, every declaration order, every excited subset (equal / unequal,
with / without exclude_from_normalize), several time axes.  Oracle: scipy.linalg.expm(K t) j (Pade, independent of
the eigen-decomposition path), equivalence of the sequential / parallel megacomplexes with the general one,
conservation, and the reported rates / lifetimes / A-matrix / DAS / K-matrix of a result.
"""
from __future__ import annotations

import itertools
import warnings

import numpy as np
import scipy.linalg

from vf import core
from vf.core import V
from vf.gen import builtin_models as B

LEVEL = "exploration"

LADDER = [3.0, 0.2, 0.011, 40.0, 0.7, 1.3e-3, 6.5, 0.05, 110.0]
TIME_AXES = {
    "uniform": np.linspace(0.0, 6.0, 13),
    "nonuniform": np.array([0.0, 0.01, 0.05, 0.3, 1.0, 2.5, 10.0, 60.0]),
    "zero": np.array([0.0]),
    "long": np.array([0.0, 5.0, 50.0, 500.0, 5000.0]),
    # the same non-equidistant axis in units a billion times larger (steps far below any absolute tolerance), and an
    # equidistant axis with one point moved by 5e-7 of a step (inside any relative tolerance): a shortcut for
    # "equidistant" axes must decide equidistance exactly (seed C04-13)
    "tiny_steps": np.array([0.0, 0.01, 0.05, 0.3, 1.0, 2.5, 10.0, 60.0]) * 1e-9,
    "near_uniform": np.linspace(0.0, 6.0, 13) + np.where(np.arange(13) == 5, 2.5e-7, 0.0),
}


def entries(n):
    return [(i, j) for i in range(n) for j in range(n)]  # (to, from); i == j is a loss channel


def rate_values(struct, pattern):
    """assign ladder values to the entries of a structure"""
    k = len(struct)
    if pattern == "ascending":
        vals = sorted(LADDER)[:k]
    elif pattern == "descending":
        vals = sorted(LADDER, reverse=True)[:k]
    else:
        vals = LADDER[:k]
    return list(vals)


def reference_K(n, struct, vals):
    K = np.zeros((n, n))
    for (to, fr), v in zip(struct, vals):
        if to == fr:
            K[to, to] -= v
        else:
            K[to, fr] += v
            K[fr, fr] -= v
    return K


def reference_j(n, excited, weights, exclude):
    j = np.zeros(n)
    for i, w in zip(excited, weights):
        j[i] = w
    inc = [i for i in range(n) if i not in exclude]
    s = j[inc].sum()
    if s != 0:
        j[inc] = j[inc] / s
    return j


def admissible(K):
    ev, vec = np.linalg.eig(K)
    if np.abs(ev.imag).max() > 1e-12 * max(1.0, np.abs(ev).max()):
        return None, "complex-eigenvalues"
    ev = ev.real
    for a, b in itertools.combinations(ev, 2):
        if abs(a - b) <= 1e-3 * max(abs(a), abs(b), 1e-300):
            return None, "degenerate-eigenvalues"
    return float(np.linalg.cond(vec)), None


def build(case):
    n = case["n"]
    names = [f"s{i+1}" for i in range(n)]
    struct = [tuple(e) for e in case["struct"]]
    vals = rate_values(struct, case["pattern"])
    params = {f"k.{i+1}": v for i, v in enumerate(vals)}
    # split entries over k-matrices
    split = case.get("split", "one")
    kms = {"km1": {}, "km2": {}}
    for idx, (to, fr) in enumerate(struct):
        target = "km1" if split in ("one", "override") or (split == "alternate" and idx % 2 == 0) or (split == "halves" and idx < (len(struct) + 1) // 2) else "km2"
        kms[target][f"{names[to]}<-{names[fr]}"] = f"k.{idx+1}"
    if split == "override":
        # the first K-matrix carries a decoy value for the first entry; the later one overrides it (documented in combine)
        to, fr = struct[0]
        kms = {"km0": {f"{names[to]}<-{names[fr]}": "k.decoy"}, "km1": kms["km1"]}
        params["k.decoy"] = 7.7
    kms = {k: {"matrix": v} for k, v in kms.items() if v}
    order = case.get("order", list(range(n)))
    weights = case["weights"]
    excited = case["excited"]
    jraw = [0.0] * n
    for i, w in zip(excited, weights):
        jraw[i] = w
    for i in range(n):
        params[f"j.{i+1}"] = jraw[i]
    ic = {"compartments": [names[i] for i in order], "parameters": [f"j.{i+1}" for i in order]}
    if case.get("exclude"):
        ic["exclude_from_normalize"] = [names[i] for i in case["exclude"]]
    md = {
        "megacomplex": {"m1": {"type": "decay", "k_matrix": list(kms)}},
        "k_matrix": kms,
        "initial_concentration": {"j1": ic},
        "dataset": {"d1": {"megacomplex": ["m1"], "initial_concentration": "j1"}},
    }
    return md, params, names, struct, vals


def case_structure(case):
    n = case["n"]
    md, params, names, struct, vals = build(case)
    involved = sorted({i for e in struct for i in e})
    if involved != list(range(n)):
        return core.ood("compartment-not-in-k-matrix")
    K = reference_K(n, struct, vals)
    condV, why = admissible(K)
    if why:
        return core.ood(why)
    if not any(i not in case.get("exclude", []) for i in case["excited"]):
        return core.ood("no-population-outside-excluded-compartments")
    j = reference_j(n, case["excited"], case["weights"], case.get("exclude", []))
    vs = []
    for tname in case["times"]:
        t = TIME_AXES[tname]
        with warnings.catch_warnings():
            warnings.simplefilter("ignore")
            # primed by the sibling schemes with the same K-matrix and all population in the first declared
            # compartment / spread evenly (a decision remembered per K-matrix must not outlive its initial concentration)
            first = dict(params, **{f"j.{i+1}": (1.0 if i == case.get("order", list(range(n)))[0] else 0.0) for i in range(n)})
            even = dict(params, **{f"j.{i+1}": 1.0 for i in range(n)})
            labels, M, mc, ds = B.calc_matrix(md, params, "d1", [0.0], t, prime=[(md, first), (md, even)])
        order = case.get("order", list(range(n)))
        want_labels = [names[i] for i in order]
        if labels != want_labels:
            vs.append(V("compartment-order-not-from-initial-concentration", got=labels, want=want_labels))
            break
        ref = np.array([scipy.linalg.expm(K * tt) @ j for tt in t])  # (time, compartment index)
        ref = ref[:, order]
        tol = 1e3 * np.finfo(float).eps * condV * max(1.0, np.abs(ref).max()) + 1e-13
        tol += 50 * np.finfo(float).eps * np.linalg.norm(K) * float(np.abs(t).max())  # error of the Pade reference itself
        err = np.abs(M - ref).max() if M.shape == ref.shape else np.inf
        if not err <= tol:
            vs.append(V("concentrations-differ-from-matrix-exponential", time_axis=tname, max_abs=float(err), tol=tol,
                        sequential_path=bool(mc.get_k_matrix().is_sequential(labels, mc.get_initial_concentration(ds)))))  # fmt: skip
            break
        if not any(to == fr for to, fr in struct):
            tot = M.sum(axis=1)
            if np.abs(tot - tot[0]).max() > tol * n:
                vs.append(V("population-not-conserved-without-loss-channel", drift=float(np.abs(tot - tot[0]).max())))
    chain = bool(not vs and len(struct) == n)
    key = {k: case[k] for k in case if k not in ("seed", "times")}
    return core.ok(key=key, outcome=[round(np.log10(condV), 0), chain, len(vs)], violations=vs)


def case_seq_par(case):
    """decay-sequential / decay-parallel agree with the general megacomplex on the equivalent K-matrix"""
    n = case["n"]
    names = [f"s{i+1}" for i in range(n)]
    rates = case["rates"]
    params = {f"k.{i+1}": v for i, v in enumerate(rates)}
    kind = case["kind"]
    md = {"megacomplex": {"m1": {"type": f"decay-{kind}", "compartments": names, "rates": [f"k.{i+1}" for i in range(n)]}},
          "dataset": {"d1": {"megacomplex": ["m1"]}}}  # fmt: skip
    vs = []
    for tname in ("uniform", "nonuniform", "long"):
        t = TIME_AXES[tname]
        labels, M, _, _ = B.calc_matrix(md, params, "d1", [0.0], t)
        K = np.zeros((n, n))
        if kind == "sequential":
            for i in range(n - 1):
                K[i + 1, i] += rates[i]
                K[i, i] -= rates[i]
            K[n - 1, n - 1] -= rates[n - 1]
            j = np.zeros(n)
            j[0] = 1.0
        else:
            for i in range(n):
                K[i, i] -= rates[i]
            j = np.ones(n) / n
        if labels != names:
            vs.append(V("labels-differ", got=labels))
            break
        ref = np.array([scipy.linalg.expm(K * tt) @ j for tt in t])
        condV, why = admissible(K)
        if why:
            return core.ood(why)
        tol = 1e3 * np.finfo(float).eps * condV * max(1.0, np.abs(ref).max()) + 1e-13
        tol += 50 * np.finfo(float).eps * np.linalg.norm(K) * float(np.abs(t).max())
        if np.abs(M - ref).max() > tol:
            vs.append(V(f"{kind}-megacomplex-differs-from-matrix-exponential", time_axis=tname, max_abs=float(np.abs(M - ref).max()), tol=tol))
            break
    return core.ok(key=[kind, rates], outcome=len(vs), violations=vs)


def case_result(case):
    """reported rates, lifetimes, A-matrix, DAS, K-matrix of an optimisation result"""
    from glotaran.optimization.optimize import optimize

    n = case["n"]
    md, params, names, struct, vals = build(case)
    involved = sorted({i for e in struct for i in e})
    if involved != list(range(n)):
        return core.ood("compartment-not-in-k-matrix")
    K = reference_K(n, struct, vals)
    condV, why = admissible(K)
    if why:
        return core.ood(why)
    j = reference_j(n, case["excited"], case["weights"], case.get("exclude", []))
    t = TIME_AXES["nonuniform"]
    g = np.array([1.0, 2.0, 3.0])
    opts = {k: {"vary": False} for k in params}
    scheme = B.make_scheme(md, params, {"d1": B.noisy_dataset(t, g, seed=case.get("seed", 0))}, options=opts)
    # at least one free parameter is needed by least_squares: free the first rate
    scheme.parameters.get("k.1").vary = True
    with warnings.catch_warnings():
        warnings.simplefilter("ignore")
        res = optimize(scheme, verbose=False, raise_exception=True)
    rd = res.data["d1"]
    vals2 = [float(res.optimized_parameters.get(f"k.{i+1}").value) for i in range(len(vals))]
    K = reference_K(n, struct, vals2)
    condV, why = admissible(K)
    if why:
        return core.ood(why)
    order = case.get("order", list(range(n)))
    vs = []
    species = [str(s) for s in rd.coords["species"].values]
    if species != [names[i] for i in order]:
        vs.append(V("result-species-order", got=species))
        return core.ok(key=None, outcome="order", violations=vs)
    tol = 1e3 * np.finfo(float).eps * condV + 1e-12
    conc = rd["species_concentration"].transpose("time", "species").values
    ref = np.array([scipy.linalg.expm(K * tt) @ j for tt in t])[:, order]
    if np.abs(conc - ref).max() > tol * max(1.0, np.abs(ref).max()):
        vs.append(V("result-species-concentration-differs-from-matrix-exponential", max_abs=float(np.abs(conc - ref).max())))
    rates = rd["rate_m1"].values
    life = rd["lifetime_m1"].values
    A = rd["a_matrix_m1"].values  # (component, species)
    if np.abs(life * rates - 1).max() > 1e-12:
        vs.append(V("lifetime-not-reciprocal-rate"))
    recon = np.exp(-np.outer(t, rates)) @ A
    if np.abs(recon - conc).max() > tol * max(1.0, np.abs(conc).max()):
        vs.append(V("concentration-not-sum-of-a-matrix-times-exponentials", max_abs=float(np.abs(recon - conc).max())))
    ev = np.sort(-np.linalg.eigvals(K).real)
    if np.abs(np.sort(rates) - ev).max() > 1e-9 * max(1.0, np.abs(ev).max()) * max(1.0, condV):
        vs.append(V("reported-rates-are-not-the-eigenvalues-of-K", got=np.sort(rates), want=ev))
    kr = rd["k_matrix_m1"].values
    if np.abs(kr - K[np.ix_(order, order)]).max() > 1e-12 * max(1.0, np.abs(K).max()):
        vs.append(V("reported-k-matrix-differs-from-reference"))
    sas = rd["species_associated_spectra"].transpose("spectral", "species").values
    das = rd["decay_associated_spectra_m1"].transpose("spectral", "component_m1").values
    if np.abs(das - sas @ A.T).max() > 1e-9 * max(1.0, np.abs(das).max()):
        vs.append(V("das-not-sas-times-a-matrix-transposed", max_abs=float(np.abs(das - sas @ A.T).max())))
    key = {k: case[k] for k in case if k not in ("seed",)}
    return core.ok(key=key, outcome=len(vs), violations=vs)


def case_two_megacomplexes(case):
    """two decay megacomplexes of one dataset sharing one initial concentration: each evolves its own compartments from
    its own entries of the (jointly normalised) initial vector, whatever the order the compartments are declared in"""
    names = ["s1", "s2", "s3", "s4"]
    rates = {"k.1": 1.3, "k.2": 0.21, "k.3": 0.6, "k.4": 0.045}
    w = case["weights"]
    params = dict(rates, **{f"j.{n}": w[i] for i, n in enumerate(names)})
    order = case["order"]
    md = {
        "megacomplex": {"mA": {"type": "decay", "k_matrix": ["kA"]}, "mB": {"type": "decay", "k_matrix": ["kB"]}},
        "k_matrix": {"kA": {"matrix": {"s2<-s1": "k.1", "s2<-s2": "k.2"}}, "kB": {"matrix": {"s4<-s3": "k.3", "s4<-s4": "k.4"}}},
        "initial_concentration": {"j1": {"compartments": [names[i] for i in order], "parameters": [f"j.{names[i]}" for i in order]}},
        "dataset": {"d1": {"megacomplex": ["mA", "mB"] if not case.get("swap") else ["mB", "mA"], "initial_concentration": "j1"}},
    }
    j = np.asarray(w, dtype=float)
    j = j / j.sum()
    vs = []
    t = TIME_AXES["nonuniform"]
    mcs = md["dataset"]["d1"]["megacomplex"]
    for idx, mc in enumerate(mcs):
        own = [0, 1] if mc == "mA" else [2, 3]
        K = np.array([[-rates["k.1"], 0.0], [rates["k.1"], -rates["k.2"]]]) if mc == "mA" else np.array([[-rates["k.3"], 0.0], [rates["k.3"], -rates["k.4"]]])
        with warnings.catch_warnings():
            warnings.simplefilter("ignore")
            labels, M, _, _ = B.calc_matrix(md, params, "d1", [0.0], t, megacomplex_index=idx)
        want_labels = [names[i] for i in order if i in own]
        if sorted(labels) != sorted(want_labels):
            vs.append(V("megacomplex-reports-foreign-compartments", megacomplex=mc, got=labels, want=want_labels))
            continue
        ref = np.array([scipy.linalg.expm(K * tt) @ j[own] for tt in t])
        ref = ref[:, [own.index(names.index(l)) for l in labels]]
        err = float(np.abs(M - ref).max())
        if not err <= 1e-12 * max(1.0, np.abs(ref).max()) * 1e2:
            vs.append(V("concentrations-differ-from-matrix-exponential/two-megacomplexes", megacomplex=mc, max_abs=err, order=order, weights=w))
    return core.ok(key=[case["weights"], case["order"], bool(case.get("swap"))], outcome=len(vs), violations=vs)


def case_two_megacomplexes_result(case):
    """result of a dataset with two decay megacomplexes that share a compartment: for each megacomplex
    DAS_mc = SAS[species of the megacomplex, in the order of its A-matrix] x A_mc^T"""
    from glotaran.optimization.optimize import optimize

    order = case["order"]
    names = ["s1", "s2", "s3"]
    md = {"megacomplex": {"mc1": {"type": "decay", "k_matrix": ["k1"]}, "mc2": {"type": "decay", "k_matrix": ["k2"]}},
          "k_matrix": {"k1": {"matrix": {"s3<-s1": "k.1"}}, "k2": {"matrix": {"s3<-s2": "k.2", "s3<-s3": "k.3"}}},
          "initial_concentration": {"j": {"compartments": [names[i] for i in order], "parameters": [f"j.{names[i]}" for i in order]}},
          "dataset": {"d1": {"megacomplex": ["mc1", "mc2"] if not case.get("swap") else ["mc2", "mc1"], "initial_concentration": "j"}}}  # fmt: skip
    vals = {"k.1": 1.1, "k.2": 0.4, "k.3": 0.07, "j.s1": 0.6, "j.s2": 0.4, "j.s3": 0.0}
    t = np.linspace(0.0, 10.0, 25)
    data = {"d1": B.noisy_dataset(t, np.array([1.0, 2.0, 3.0]), seed=1, salt="c04mc")}
    scheme = B.make_scheme(md, vals, data, options={l: {"vary": False} for l in vals if l.startswith("j.")})
    with warnings.catch_warnings():
        warnings.simplefilter("ignore")
        d = optimize(scheme, verbose=False, raise_exception=True).data["d1"]
    vs = []
    sas = d["species_associated_spectra"]
    for mc in ("mc1", "mc2"):
        A = d[f"a_matrix_{mc}"]
        species = [str(x) for x in A.coords[f"species_{mc}"].values]
        want = sas.sel(species=species).values @ A.values.T
        got = d[f"decay_associated_spectra_{mc}"].values
        if got.shape != want.shape or np.abs(got - want).max() > 1e-10 * max(1.0, np.abs(want).max()):
            vs.append(V("das-is-not-sas-times-a-matrix-transposed/two-megacomplexes", megacomplex=mc, species=species,
                        max_abs=float(np.abs(got - want).max()) if got.shape == want.shape else None))  # fmt: skip
    return core.ok(key=[case["order"], bool(case.get("swap"))], outcome=len(vs), violations=vs)


CASE_FUNCS = {"structure": case_structure, "seq_par": case_seq_par, "result": case_result, "two_megacomplexes": case_two_megacomplexes,
              "two_megacomplexes_result": case_two_megacomplexes_result}  # fmt: skip


def structures(n, max_entries=None):
    E = entries(n)
    out = []
    for k in range(1, len(E) + 1):
        if max_entries and k > max_entries:
            break
        for S in itertools.combinations(E, k):
            if sorted({i for e in S for i in e}) == list(range(n)):
                out.append([list(e) for e in S])
    return out


def excitations(n, unequal):
    out = []
    for k in range(1, n + 1):
        for S in itertools.combinations(range(n), k):
            out.append((list(S), [1.0] * k))
            if unequal and k > 1:
                out.append((list(S), [0.5 + i for i in range(k)]))
                out.append((list(S), [0.5] * k))  # sums to 1 only for k == 2 : the sequential-path trap
    return out


def run(run: core.Run):
    quick = run.tier == "quick"
    cases = []
    for n in (1, 2, 3):
        for st in structures(n):
            for pattern in ("interleaved",) if quick else ("interleaved", "ascending", "descending"):
                for exc, w in excitations(n, unequal=True):
                    for split in ("one", "alternate", "override") if len(st) > 1 else ("one", "override"):
                        if quick and split == "alternate" and len(st) > 4:
                            continue
                        base = {"n": n, "struct": st, "pattern": pattern, "excited": exc, "weights": w, "split": split,
                                "times": ["nonuniform", "zero", "tiny_steps", "near_uniform"] if quick else list(TIME_AXES), "seed": run.seed}  # fmt: skip
                        cases.append(base)
            # declaration orders and exclude_from_normalize on one rate pattern
            for order in itertools.permutations(range(n)):
                if list(order) == list(range(n)):
                    continue
                for exc, w in excitations(n, unequal=False):
                    cases.append({"n": n, "struct": st, "pattern": "interleaved", "excited": exc, "weights": w, "order": list(order),
                                  "times": ["nonuniform"], "seed": run.seed})  # fmt: skip
            if n >= 2:
                for exc, w in excitations(n, unequal=True):
                    for k in range(1, n):
                        for excl in itertools.combinations(range(n), k):
                            if len(st) > 5 and quick:
                                continue
                            cases.append({"n": n, "struct": st, "pattern": "interleaved", "excited": exc, "weights": w,
                                          "exclude": list(excl), "times": ["nonuniform"], "seed": run.seed})  # fmt: skip
    if not quick:
        for st in structures(4, max_entries=5):
            for exc, w in excitations(4, unequal=False):
                cases.append({"n": 4, "struct": st, "pattern": "interleaved", "excited": exc, "weights": w, "times": ["nonuniform"], "seed": run.seed})
    run.map("structure", cases, chunksize=64)
    sp = []
    for n in (1, 2, 3, 4, 5):
        for rates in itertools.permutations(LADDER[:5], n) if n <= 3 else [tuple(LADDER[:n]), tuple(sorted(LADDER[:n])), tuple(sorted(LADDER[:n], reverse=True))]:
            for kind in ("sequential", "parallel"):
                sp.append({"n": n, "rates": list(rates), "kind": kind})
    run.map("seq_par", sp)
    tm = []
    for weights in ([0.4, 0.1, 0.3, 0.2], [1.0, 0.0, 1.0, 0.0], [0.55, 0.05, 0.3, 0.1], [0.0, 1.0, 0.25, 0.0]):
        for order in itertools.permutations(range(4)):
            for swap in (False, True):
                tm.append({"weights": weights, "order": list(order), "swap": swap})
    run.map("two_megacomplexes", tm)
    run.map("two_megacomplexes_result", [{"order": list(o), "swap": sw} for o in itertools.permutations(range(3)) for sw in (False, True)])
    rs = []
    for n in (1, 2, 3):
        sts = structures(n) if n < 3 else [s for s in structures(3) if len(s) <= (3 if quick else 4)]
        for st in sts:
            for exc, w in excitations(n, unequal=False):
                rs.append({"n": n, "struct": st, "pattern": "interleaved", "excited": exc, "weights": w, "seed": run.seed})
            if n == 3:
                rs.append({"n": n, "struct": st, "pattern": "interleaved", "excited": [0], "weights": [1.0], "order": [2, 0, 1], "seed": run.seed})
    run.map("result", rs)
    run.bounds = {"compartments": "all structures N<=3" + ("" if quick else ", N=4 with <=5 entries"), "rate_patterns": 1 if quick else 3,
                  "k_matrix_splits": 2, "orders": "all N!", "time_axes": list(TIME_AXES), "eigenvalue_gap": 1e-3}  # fmt: skip
    run.rule = (
        "every subset of the N^2 K-matrix entries (N<=3) that involves all compartments x rate patterns x every excited "
        "subset (equal/unequal/exclude_from_normalize) x K-matrix splits x declaration orders x time axes; admitted only "
        "with real, separated eigenvalues; oracle scipy.linalg.expm(K t) j with tolerance ~ cond(V); sequential/parallel "
        "megacomplexes against the equivalent K; result-level A-matrix/rates/DAS/K identities. distinct_nontrivial = "
        "distinct admitted cases"
    )
    run.assumptions = ["degenerate / complex spectra are outside the property and counted as out of domain"]
