"""C08 -- interval-scoped constraints, relations, penalties and weights act on their interval.

E1: every ordered pair of bounds from a bound alphabet (below / on / between / above the axis points, +-inf) on
several axes, for every item kind, linked and unlinked, observed on the real pipeline (optimize() results).
Oracle: set semantics of the statement: must (points inside the closed interval; infinite bound reaches the axis
end) is a subset of affected, affected is a subset of may (nothing beyond the axis point nearest to a bound);
`only` = complement of `zero`; no interval = everywhere; lists = union; monotonicity over all nested pairs.
"""
from __future__ import annotations

import itertools
import math
import warnings

import numpy as np

from vf import core
from vf.core import V
from vf.gen import schemes as S

LEVEL = "exploration"

AXES = {
    "uniform5": [1.0, 2.0, 3.0, 4.0, 5.0],
    "nonuniform5": [0.5, 1.0, 2.5, 3.0, 7.0],
    "two": [1.0, 3.0],
    "one": [2.0],
    "uniform3": [1.0, 2.0, 3.0],
    "through_zero": [-2.0, -1.0, 0.0, 1.0, 2.0],  # an axis point that is exactly 0
}
KINDS = ["zero_only", "relation", "penalty_source", "penalty_target", "weight_global", "weight_model"]


def bound_alphabet(axis):
    a = list(axis)
    b = {-math.inf, math.inf, a[0] - 1.5, a[-1] + 1.5}
    b.update(a)
    for x, y in zip(a, a[1:]):
        b.add((x + y) / 2)
        b.add(x + (y - x) / 4)
    return sorted(b)


def enc(b):
    return "inf" if b == math.inf else "-inf" if b == -math.inf else b


def dec(b):
    return float(b)


def must_may(intervals, axis):
    must, may = set(), set()
    for iv in intervals:
        m1, m2 = S.interval_index_range_bounds((dec(iv[0]), dec(iv[1])), axis)
        must |= m1
        may |= m2
    return must, may


def pair_axis(axis, twin=False):
    if twin:  # same length, same first and last point, other points in between
        a = list(axis)
        return [a[0]] + [0.5 * (a[i] + a[i + 1]) for i in range(1, len(a) - 1)] + [a[-1]] if len(a) >= 3 else a
    return list(axis[1:-1]) if len(axis) >= 3 else list(axis[:1])


def build_spec(case, kind_variant=None):
    axis = AXES[case["axis"]]
    linked = case["linked"]
    mcs = {"m1": S.mc_model(["s1", "s2"]), "m2": S.mc_model(["s2", "s3"])}
    ds = [S.dataset("d1", axis, n_model=6, megacomplexes=["m1"])]
    if case.get("square_gm"):  # as many model points as global points, data stored as (global, model)
        ds = [S.dataset("d1", axis, n_model=len(axis), megacomplexes=["m1"])]
        ds[0]["layout"] = "gm"
    if linked:
        ds.append(S.dataset("d2", axis, n_model=5, megacomplexes=["m2"]))
    if case.get("pair"):
        # an unlinked group of two datasets: d0 is declared first, lives on a narrower axis sharing its points with
        # d1's, and (unless a penalty needs s1) lacks the clp the item targets; d1 is the observed dataset
        twin = case["pair"] == "twin"
        mc0 = ["m1"] if case["kind"].startswith(("penalty", "weight")) or twin else ["m2"]
        ds.insert(0, S.dataset("d0", pair_axis(axis, twin), n_model=5, megacomplexes=mc0))
    spec = S.base_spec(ds, mcs, seed=case.get("seed", 0))
    spec["groups"]["default"]["link_clp"] = linked
    return spec


def intervals_of(case):
    ivs = case["intervals"]
    return None if ivs is None else [[dec(a), dec(b)] for a, b in ivs]


def item_interval(case):
    """the interval attribute as the model takes it: None, one tuple, or a list of tuples"""
    ivs = case["intervals"]
    if ivs is None:
        return None
    if len(ivs) == 1 and not case.get("as_list"):
        return [enc(dec(ivs[0][0])), enc(dec(ivs[0][1]))]
    return [[enc(dec(a)), enc(dec(b))] for a, b in ivs]


def optimize_spec(spec):
    from glotaran.optimization.optimize import optimize

    scheme = S.build_scheme(spec)
    # one free parameter is enough for C08 and keeps the degrees of freedom positive on one- and two-point axes
    for p in scheme.parameters.all():
        if p.label != "rate.m1.1":
            p.vary = False
    with warnings.catch_warnings(record=True) as w:
        warnings.simplefilter("always")
        res = optimize(scheme, verbose=False, raise_exception=True)
    return res, [str(x.message) for x in w]


def observe(case):
    """returns (affected index set, extra violations)"""
    kind = case["kind"]
    axis = AXES[case["axis"]]
    spec = build_spec(case)
    vs = []
    iv = item_interval(case)
    if kind == "zero_only":
        spec["constraints"] = [{"type": "zero", "target": "s1", "interval": iv}]
        res, _ = optimize_spec(spec)
        c = res.data["d1"]["clp"].sel(clp_label="s1").values
        zero_set = {i for i in range(len(axis)) if c[i] == 0.0}
        if iv is not None:
            spec["constraints"] = [{"type": "only", "target": "s1", "interval": iv}]
            res2, _ = optimize_spec(spec)
            c2 = res2.data["d1"]["clp"].sel(clp_label="s1").values
            only_zeroed = {i for i in range(len(axis)) if c2[i] == 0.0}
            if only_zeroed != set(range(len(axis))) - zero_set:
                vs.append(V("only-is-not-the-complement-of-zero", zero=sorted(zero_set), only_zeroed=sorted(only_zeroed)))
            # number_of_clps must count exactly the remaining coefficients
            n_labels = 2 + (1 if case["linked"] else 0)
            want = n_labels * len(axis) - len(zero_set)
            if case.get("pair"):
                axis0 = pair_axis(axis, case["pair"] == "twin")
                want += 2 * len(axis0)
                if case["pair"] == "twin":  # d0 carries s1 as well: its zeroed points obey the same set semantics on its own axis
                    c0 = res.data["d0"]["clp"].sel(clp_label="s1").values
                    zero0 = {i for i in range(len(axis0)) if c0[i] == 0.0}
                    must0, may0 = must_may(case["intervals"], axis0)
                    if not (must0 <= zero0 <= may0):
                        vs.append(V("first-dataset-of-the-pair-zeroed-at-the-wrong-points", zeroed=sorted(zero0), must=sorted(must0), may=sorted(may0)))
                    want -= len(zero0)
            if res.number_of_clps != want:
                vs.append(V("number-of-clps-inconsistent-with-zeroed-clps", got=int(res.number_of_clps), want=want))
        return zero_set, vs
    if kind == "relation":
        spec["relations"] = [{"source": "s1", "target": "s2", "parameter": 0.7, "interval": iv}]
        if case.get("with_zero"):  # the relation's target is zero-constrained at the last axis point, outside the relation's interval
            spec["constraints"] = [{"type": "zero", "target": "s2", "interval": [axis[-1], axis[-1]]}]
        res, _ = optimize_spec(spec)
        p = float(res.optimized_parameters.get("rel.1").value)
        c = res.data["d1"]["clp"]
        s1, s2 = c.sel(clp_label="s1").values, c.sel(clp_label="s2").values
        if case.get("with_zero") and s2[-1] != 0.0:
            vs.append(V("relation-acts-outside-its-interval-on-a-zero-constrained-target", got=float(s2[-1]), source=float(s1[-1])))
        return {i for i in range(len(axis)) if s2[i] == p * s1[i]}, vs
    if kind in ("weight_global", "weight_model"):
        wds = ["d0", "d1"] if case.get("pair") else ["d1"]
        if kind == "weight_global":
            spec["weights"] = [{"datasets": wds, "global_interval": iv, "value": 0.25}]
        else:
            spec["weights"] = [{"datasets": wds, "model_interval": iv, "value": 0.25}]
        if iv is not None and (isinstance(iv[0], list)):
            # weights take a single interval: a list is expressed as several weight items (their product)
            key = "global_interval" if kind == "weight_global" else "model_interval"
            spec["weights"] = [{"datasets": ["d1"], key: one, "value": 0.25} for one in iv]
        res, _ = optimize_spec(spec)
        w = res.data["d1"]["weight"].transpose("time", "spectral").values
        if kind == "weight_global":
            cols = {i for i in range(w.shape[1]) if np.all(w[:, i] != 1.0)}
            mixed = [i for i in range(w.shape[1]) if len(set(w[:, i])) != 1]
        else:
            cols = {i for i in range(w.shape[0]) if np.all(w[i, :] != 1.0)}
            mixed = [i for i in range(w.shape[0]) if len(set(w[i, :])) != 1]
        if mixed:
            vs.append(V("weight-not-constant-along-the-unrestricted-dimension", mixed=mixed))
        wr = res.data["d1"]["weighted_residual"].transpose("time", "spectral").values
        r = res.data["d1"]["residual"].transpose("time", "spectral").values
        if not np.allclose(wr, w * r, rtol=1e-12, atol=1e-14):
            vs.append(V("weighted-residual-not-weight-times-residual"))
        return cols, vs
    if kind in ("penalty_source", "penalty_target"):
        whole = [[enc(-math.inf), enc(math.inf)]]
        full_on_axis = [[axis[0], axis[-1]]]
        ivs = [[enc(dec(a)), enc(dec(b))] for a, b in case["intervals"]]
        if kind == "penalty_source":
            pen = {"source": "s1", "source_intervals": ivs, "target": "s2", "target_intervals": full_on_axis}
        else:
            pen = {"source": "s1", "source_intervals": full_on_axis, "target": "s2", "target_intervals": ivs}
        del whole
        spec["penalties"] = [dict(pen, parameter=1.3, weight=0.5)]
        res, warns = optimize_spec(spec)
        p = float(res.optimized_parameters.get("pen.1").value)
        got = [float(x) for g in res.additional_penalty for x in g]
        must, may = must_may(case["intervals"], axis)
        # every admissible index multiset: per interval any set between its must and may; the statement fixes which
        # points are affected, not whether a point lying in two overlapping intervals of a list counts once or
        # twice, so both the union and the per-interval sum are admissible

        def admissible_values(label, ax):
            c = res.data[label]["clp"]
            s1, s2 = c.sel(clp_label="s1").values, c.sel(clp_label="s2").values
            per_interval = []
            for one in case["intervals"]:
                m1, m2 = must_may([one], ax)
                extra = sorted(m2 - m1)
                per_interval.append([sorted(m1 | set(add)) for r in range(len(extra) + 1) for add in itertools.combinations(extra, r)])
            out = []
            for combo in itertools.product(*per_interval):
                multi = sorted(i for A in combo for i in A)
                for A in (multi, sorted(set(multi))):
                    if not A:
                        val = None  # an empty area: the penalty is skipped for this dataset
                    elif kind == "penalty_source":
                        val = abs(sum(s1[i] for i in A) - p * sum(s2)) * 0.5
                    else:
                        val = abs(sum(s1) - p * sum(s2[i] for i in A)) * 0.5
                    out.append((A, val))
            return out

        per_dataset = [admissible_values("d0", pair_axis(axis, case.get("pair") == "twin"))] if case.get("pair") else []
        per_dataset.append(admissible_values("d1", axis))
        matches = []
        for combo in itertools.product(*per_dataset):
            want = [val for _, val in combo if val is not None]
            if len(want) == len(got) and all(abs(g - w) <= 1e-9 * max(1.0, abs(w)) for g, w in zip(got, want)):
                matches.append(combo[-1][0])
        if not matches:
            vs.append(V("equal-area-penalty-not-over-an-admissible-index-set", kind=kind, got=got, must=sorted(must),
                        may=sorted(may)))  # fmt: skip
            return None, vs
        return set(matches[0]), vs
    raise AssertionError(kind)


def case_interval(case):
    axis = AXES[case["axis"]] if case["kind"] != "weight_model" else S.MODEL_AXES[6]
    try:
        affected, vs = observe(case)
    except Exception as e:  # noqa: BLE001
        import traceback

        return core.ok(key=None, outcome="raised", payload=None, violations=[
            V(f"pipeline-raised/{case['kind']}/{type(e).__name__}", message=str(e)[:300], traceback=traceback.format_exc()[-1200:])])  # fmt: skip
    if affected is None:
        return core.ok(key=None, outcome="no-match", violations=vs, payload=None)
    if case["intervals"] is None:
        if affected != set(range(len(axis))):
            vs.append(V(f"item-without-interval-not-everywhere/{case['kind']}", affected=sorted(affected)))
        return core.ok(key=[case["kind"], case["axis"], case["linked"], None], outcome=sorted(affected), violations=vs, payload=sorted(affected))
    must, may = must_may(case["intervals"], axis)
    if not must <= affected:
        vs.append(V(f"point-inside-interval-not-affected/{case['kind']}", affected=sorted(affected), must=sorted(must),
                    intervals=case["intervals"], axis=axis))  # fmt: skip
    if not affected <= may:
        vs.append(V(f"point-beyond-nearest-axis-point-affected/{case['kind']}", affected=sorted(affected), may=sorted(may),
                    intervals=case["intervals"], axis=axis))  # fmt: skip
    nontrivial = 0 < len(affected) < len(axis) or any(math.isinf(dec(b)) for iv in case["intervals"] for b in iv)
    key = [case["kind"], case["axis"], case["linked"], case["intervals"]] if nontrivial else None
    return core.ok(key=key, outcome=sorted(affected), violations=vs, payload=sorted(affected))


def case_dataset_and_model_weight(case):
    """dataset weight + model weight -> dataset weight used, warning issued"""
    spec = build_spec(case)
    spec["datasets"][0]["weight"] = "dataset"
    spec["datasets"][0]["layout"] = case.get("layout", "mg")
    spec["weights"] = [{"datasets": ["d1"], "global_interval": None, "value": 0.25}]
    vs = []
    try:
        res, warns = optimize_spec(spec)
    except Exception as e:  # noqa: BLE001
        return core.ok(key="ds+model", outcome="raised", violations=[V("dataset-plus-model-weight-raised", exc=repr(e)[:200])])
    want = S.dataset_weight_array(spec, spec["datasets"][0])
    got = res.data["d1"]["weight"].transpose("time", "spectral").values
    if not np.array_equal(got, want):
        vs.append(V("dataset-weight-not-used-when-model-weight-present"))
    if not any("weight" in w.lower() for w in warns):
        vs.append(V("no-warning-for-ignored-model-weight", warnings=warns[:3]))
    return core.ok(key=["ds+model", case["axis"], case["linked"], case.get("layout")], outcome=len(warns), violations=vs)


def case_weight_combo(case):
    """several model weights of different kinds on one dataset multiply, each on its own interval"""
    spec = build_spec(case)
    spec["weights"] = [dict(w, datasets=["d1"]) for w in case["weights"]]
    try:
        res, _ = optimize_spec(spec)
    except Exception as e:  # noqa: BLE001
        return core.ok(key=None, outcome="raised", violations=[V("weight-combination-raised", exc=repr(e)[:200])])
    got = res.data["d1"]["weight"].transpose("time", "spectral").values
    want, _ = S.reference_weights(spec, spec["datasets"][0])
    vs = []
    if want is None or got.shape != want.shape or not np.array_equal(got, want):
        vs.append(V("combined-model-weights-differ-from-product-of-weights", weights=case["weights"],
                    wrong_entries=int(np.sum(got != want)) if want is not None and got.shape == want.shape else -1))  # fmt: skip
    return core.ok(key=case["weights"], outcome=len(vs), violations=vs)


def case_applies(case):
    """IntervalItem.applies / OnlyConstraint.applies against closed, order-insensitive membership"""
    from glotaran.model.clp_constraint import OnlyConstraint
    from glotaran.model.clp_constraint import ZeroConstraint

    iv = S._interval_to_model(item_interval(case))
    z = ZeroConstraint(target="s1", interval=iv)
    o = OnlyConstraint(target="s1", interval=iv)
    vs = []
    for x in case["points"]:
        want = True if case["intervals"] is None else any(min(dec(a), dec(b)) <= x <= max(dec(a), dec(b)) for a, b in case["intervals"])
        if z.applies(x) != want:
            vs.append(V("applies-differs-from-closed-interval-membership", x=x, intervals=case["intervals"], got=z.applies(x)))
        if case["intervals"] is not None and o.applies(x) != (not want):
            vs.append(V("only-applies-is-not-negation-of-zero", x=x, intervals=case["intervals"]))
    return core.ok(key=case["intervals"], outcome=len(vs), violations=vs)


def case_yml_interval(case):
    """intervals written in a yml model (single interval as list, list of intervals) act like the tuple forms"""
    import yaml

    from glotaran.io import load_model

    text = yaml.safe_dump({
        "megacomplex": {"m1": {"type": "decay-parallel", "compartments": ["s1", "s2"], "rates": ["r.1", "r.2"]}},
        "dataset": {"d1": {"megacomplex": ["m1"]}},
        "clp_constraints": [{"type": case["type"], "target": "s1", "interval": case["interval"]}],
        "clp_relations": [{"source": "s1", "target": "s2", "parameter": "r.1", "interval": case["interval"]}],
    })  # fmt: skip
    model = load_model(text, format_name="yml_str")
    vs = []
    ivs = case["interval"] if isinstance(case["interval"][0], list) else [case["interval"]]
    for item in (model.clp_constraints[0], model.clp_relations[0]):
        for x in case["points"]:
            inside = any(min(a, b) <= x <= max(a, b) for a, b in ivs)
            want = inside if (item is model.clp_relations[0] or case["type"] == "zero") else not inside
            try:
                got = item.applies(x)
            except Exception as e:  # noqa: BLE001
                vs.append(V("yml-interval-applies-raised", interval=case["interval"], exc=repr(e)[:200]))
                break
            if got != want:
                vs.append(V("yml-interval-applies-wrong", interval=case["interval"], x=x, got=got, want=want))
    return core.ok(key=[case["type"], case["interval"]], outcome=len(vs), violations=vs)


CASE_FUNCS = {"interval": case_interval, "weight_combo": case_weight_combo, "ds_model_weight": case_dataset_and_model_weight, "applies": case_applies,
              "yml_interval": case_yml_interval}  # fmt: skip


def monotonicity(run, part):
    """affected(I) subset affected(I') for every nested pair of single intervals of the enumeration"""
    groups: dict = {}
    for case, payload in run.payloads.get(part, []):
        if payload is None or case["intervals"] is None or len(case["intervals"]) != 1:
            continue
        a, b = dec(case["intervals"][0][0]), dec(case["intervals"][0][1])
        groups.setdefault((case["kind"], case["axis"], case["linked"]), []).append((min(a, b), max(a, b), set(payload), case))
    pairs = 0
    for key, items in groups.items():
        found = False
        for (lo1, hi1, A1, c1), (lo2, hi2, A2, c2) in itertools.product(items, items):
            if lo2 <= lo1 and hi1 <= hi2:
                pairs += 1
                if not A1 <= A2 and not found:
                    found = True
                    res = core.ok(violations=[V(f"enlarging-interval-shrinks-affected-set/{key[0]}", inner=c1["intervals"], outer=c2["intervals"],
                                                affected_inner=sorted(A1), affected_outer=sorted(A2), axis=key[1], linked=key[2])])  # fmt: skip
                    run.absorb("interval", {"kind": key[0], "axis": key[1], "linked": key[2], "intervals": c1["intervals"], "outer": c2["intervals"],
                                            "monotonicity": True}, res, part="monotonicity")  # fmt: skip
    run.extra["monotonicity_nested_pairs_checked"] = pairs


def run(run: core.Run):
    quick = run.tier == "quick"
    axes = ["uniform5", "nonuniform5"] if quick else ["uniform5", "nonuniform5", "two", "one", "uniform3"]
    cases = []
    for ax in axes:
        for kind in KINDS:
            axis = AXES[ax] if kind != "weight_model" else S.MODEL_AXES[6]
            B = bound_alphabet(axis)
            if kind == "weight_model" and ax != axes[0]:
                continue
            for linked in (False, True):
                if not kind.startswith("penalty"):  # penalties always carry intervals
                    cases.append({"axis": ax, "kind": kind, "linked": linked, "intervals": None, "seed": run.seed})
                for lo, hi in itertools.product(B, B):
                    if kind.startswith("penalty") and quick and linked and ax != axes[0]:
                        continue
                    cases.append({"axis": ax, "kind": kind, "linked": linked, "intervals": [[enc(lo), enc(hi)]], "seed": run.seed})
                # lists of intervals (union)
                if kind in ("zero_only", "relation", "penalty_source", "penalty_target", "weight_global"):
                    pts = [axis[0] - 1.5, axis[0], (axis[0] + axis[1]) / 2 if len(axis) > 1 else axis[0], axis[len(axis) // 2], axis[-1], math.inf]
                    singles = [(a, b) for a, b in itertools.product(pts, pts) if a <= b]
                    lists = list(itertools.combinations(singles, 2))
                    if quick:
                        lists = lists[:: max(1, len(lists) // 40)]
                    for i1, i2 in lists:
                        cases.append({"axis": ax, "kind": kind, "linked": linked, "as_list": True, "seed": run.seed,
                                      "intervals": [[enc(i1[0]), enc(i1[1])], [enc(i2[0]), enc(i2[1])]]})  # fmt: skip
                    cases.append({"axis": ax, "kind": kind, "linked": linked, "as_list": True, "seed": run.seed,
                                  "intervals": [[enc(axis[0]), enc(axis[0])]]})  # fmt: skip
    # unlinked pair of datasets on different axes (d0 narrower, declared first): every ordered pair of bounds
    pair_cases = []
    for ax in ["uniform5", "nonuniform5"] if quick else ["uniform5", "nonuniform5", "uniform3", "two"]:
        for kind in ("zero_only", "relation", "penalty_source", "penalty_target"):
            B = bound_alphabet(AXES[ax])
            if quick:
                B = B[::2] if kind.startswith("penalty") else B
            for lo, hi in itertools.product(B, B):
                pair_cases.append({"axis": ax, "kind": kind, "linked": False, "pair": True, "intervals": [[enc(lo), enc(hi)]], "seed": run.seed})
    # ... and a pair whose first dataset lives on a *twin* axis (same length and end points, other interior points)
    for ax in ["uniform5", "nonuniform5"]:
        for kind in ("zero_only", "relation", "penalty_source", "penalty_target", "weight_global"):
            B = bound_alphabet(AXES[ax])
            if quick:
                B = B[::2] if kind.startswith("penalty") else B
            for lo, hi in itertools.product(B, B):
                pair_cases.append({"axis": ax, "kind": kind, "linked": False, "pair": "twin", "intervals": [[enc(lo), enc(hi)]], "seed": run.seed})
    extra = []
    Bz = bound_alphabet(AXES["through_zero"])
    for kind in ("zero_only", "relation", "weight_global"):
        for lo, hi in itertools.product(Bz[::2] if quick else Bz, repeat=2):
            for linked in (False, True):
                extra.append({"axis": "through_zero", "kind": kind, "linked": linked, "intervals": [[enc(lo), enc(hi)]], "seed": run.seed})
    for ax in ("uniform5", "nonuniform5"):
        axis = AXES[ax]
        B = bound_alphabet(axis)
        for lo, hi in itertools.product(B, B):
            # square (global, model) data: the reported weight must sit on the dataset's own dimensions
            for kind in ("weight_global", "weight_model"):
                if kind == "weight_model" or not quick or (lo, hi) in list(itertools.product(B[::2], B[::2])):
                    pass
            if max(dec(enc(lo)), dec(enc(hi))) < axis[-2] + 0.5 * (axis[-1] - axis[-2]):
                for linked in (False, True):
                    extra.append({"axis": ax, "kind": "relation", "linked": linked, "with_zero": True, "intervals": [[enc(lo), enc(hi)]], "seed": run.seed})
        for lo, hi in itertools.product(B[::2], B[::2]):
            extra.append({"axis": ax, "kind": "weight_global", "linked": False, "square_gm": True, "intervals": [[enc(lo), enc(hi)]], "seed": run.seed})
    run.map("interval", cases)
    monotonicity(run, "interval")
    run.map("interval", extra, part="interval-combinations")
    run.map("interval", pair_cases, part="interval-unlinked-pair")
    # combinations of two model weights (bounds on axis points so that the reference slice is unambiguous)
    wc = []
    items = [{"value": 3.0}, {"global_interval": [2.0, 4.0], "value": 0.25}, {"global_interval": [1.0, "inf"], "value": 0.5},
             {"model_interval": [0.3, 1.7], "value": 2.0}, {"model_interval": ["-inf", 0.8], "value": 1.5},
             {"global_interval": [3.0, 3.0], "model_interval": [0.0, 0.3], "value": 0.125}]  # fmt: skip
    for a, b in itertools.permutations(items, 2):
        for linked in (False, True):
            wc.append({"axis": "uniform5", "linked": linked, "weights": [a, b], "seed": run.seed})
    for a, b, c in itertools.permutations(items[:4], 3):
        wc.append({"axis": "uniform5", "linked": False, "weights": [a, b, c], "seed": run.seed})
    run.map("weight_combo", wc)
    dm = [{"axis": ax, "linked": l, "layout": lay, "seed": run.seed} for ax in axes for l in (False, True) for lay in ("mg", "gm")]
    run.map("ds_model_weight", dm)
    ap = []
    for ax in ("uniform5", "nonuniform5"):
        B = bound_alphabet(AXES[ax])
        pts = sorted(set(AXES[ax]) | {b for b in B if not math.isinf(b)})
        for lo, hi in itertools.product(B, B):
            ap.append({"intervals": [[enc(lo), enc(hi)]], "points": pts})
        ap.append({"intervals": None, "points": pts})
        for (a, b), (c, d) in itertools.combinations(list(itertools.product(B[::3], B[::3])), 2):
            ap.append({"intervals": [[enc(a), enc(b)], [enc(c), enc(d)]], "as_list": True, "points": pts})
    run.map("applies", ap)
    yi = []
    for typ in ("zero", "only"):
        for iv in ([1, 100], [100, 1], [[1, 100]], [[1, 2], [5, 8]], [2.5, 2.5]):
            yi.append({"type": typ, "interval": iv, "points": [0.0, 1.0, 1.5, 2.5, 5.0, 100.0, 101.0]})
    run.map("yml_interval", yi)
    run.bounds = {"axes": {a: AXES[a] for a in axes}, "bound_alphabet_size": {a: len(bound_alphabet(AXES[a])) for a in axes},
                  "kinds": KINDS, "interval_lists": "covering subset" if quick else "all pairs from a 6-bound alphabet"}  # fmt: skip
    run.rule = (
        "every ordered pair (lo, hi) of the bound alphabet (-inf, below, each axis point, midpoints, quarter points, "
        "above, +inf) per axis, item kind and linking mode (+ interval lists, no interval), observed on optimize() "
        "results; oracle must <= affected <= may, only = complement of zero, union for lists, monotonicity over all "
        "nested pairs, dataset-over-model weight precedence with warning. distinct_nontrivial = cases whose affected "
        "set is a proper non-empty subset of the axis or that use an infinite bound"
    )
    run.assumptions = ["generic (noisy) data so that unconstrained clps are non-zero and unrelated clps differ"]
