"""C18 -- saving never destroys existing files unless asked; project results accumulate.

(a) E3, exhaustive overwrite matrix: every save_* function x every registered format implementing it (+ unknown
    format, a plugin lacking the method, a plugin that writes half a file and raises) x target state x allow_overwrite;
    oracle: byte-level snapshot of the directory tree before / after, plugin call counters.
(b) E2, project histories: every sequence (up to the depth bound) of Project.optimize runs over result names that
    share prefixes / contain '_run_' / dots, replayed on a fresh real project folder; reference model = dict name ->
    number of runs; invariants on run numbering, earlier runs unchanged and loadable, every latest-result lookup;
    plus import_data / generate_model / generate_parameters flag histories.
"""
from __future__ import annotations

import hashlib
import itertools
import os
import shutil
import tempfile
import warnings
from pathlib import Path

import numpy as np

from vf import core
from vf.core import V
from vf.gen import builtin_models as B

LEVEL = "model_checking"

NAMES = ["a", "ab", "a_run_b", "a_run_0001", "a_b", "a.b"]


def tree(root):
    out = {}
    root = Path(root)
    if not root.exists():
        return out
    for p in sorted(root.rglob("*")):
        rel = p.relative_to(root).as_posix()
        if p.is_dir():
            out[rel + "/"] = "dir"
        else:
            out[rel] = hashlib.sha1(p.read_bytes()).hexdigest()[:12] + f":{p.stat().st_mtime_ns}"
    return out


def tree_contents(root):
    return {k: (v if v == "dir" else v.split(":")[0]) for k, v in tree(root).items()}


_OBJ: dict = {}


def objects():
    """a genuine model / parameters / scheme / result / dataset to save"""
    if _OBJ:
        return _OBJ
    import atexit

    from glotaran.io import load_dataset
    from glotaran.io import load_model
    from glotaran.io import load_parameters
    from glotaran.io import save_dataset
    from glotaran.optimization.optimize import optimize
    from glotaran.project import Scheme

    t = np.concatenate([np.linspace(-0.5, 1, 16), np.array([2.0, 5.0, 12.0])])
    g = np.array([600.0, 650.0, 700.0])
    # components are written to / loaded from files once, so that they carry source paths like in real use
    src = Path(tempfile.mkdtemp(prefix="vf-c18-src-"))
    atexit.register(shutil.rmtree, src, ignore_errors=True)
    (src / "model.yml").write_text(
        "megacomplex:\n  m1:\n    type: decay-parallel\n    compartments: [s1, s2]\n    rates: [k.1, k.2]\n"
        "irf:\n  irf1:\n    type: gaussian\n    center: irf.c\n    width: irf.w\n"
        "dataset:\n  d1:\n    megacomplex: [m1]\n    irf: irf1\n"
    )
    (src / "parameters.yml").write_text("k:\n  - 0.5\n  - 3.0\nirf:\n  - [c, 0.1]\n  - [w, 0.15]\n")
    save_dataset(B.noisy_dataset(t, g, seed=2, salt="c18"), src / "d1.nc")
    model = load_model(src / "model.yml")
    parameters = load_parameters(src / "parameters.yml")
    dataset = load_dataset(src / "d1.nc")
    scheme = Scheme(model=model, parameters=parameters, data={"d1": dataset}, maximum_number_function_evaluations=1, add_svd=False)
    with warnings.catch_warnings():
        warnings.simplefilter("ignore")
        result = optimize(scheme, verbose=False, raise_exception=True)
    _OBJ.update(model=scheme.model, parameters=scheme.parameters, scheme=scheme, result=result, dataset=scheme.data["d1"])
    return _OBJ


# --------------------------------------------------------------------------- (a) overwrite matrix
SAVE = {
    "save_model": ("project", "model"), "save_parameters": ("project", "parameters"), "save_scheme": ("project", "scheme"),
    "save_result": ("project", "result"), "save_dataset": ("data", "dataset"),
}  # fmt: skip


def formats_for(func):
    from glotaran.io.interface import DataIoInterface
    from glotaran.io.interface import ProjectIoInterface
    from glotaran.plugin_system.base_registry import methods_differ_from_baseclass
    from glotaran.plugin_system.data_io_registration import get_data_io
    from glotaran.plugin_system.data_io_registration import known_data_formats
    from glotaran.plugin_system.project_io_registration import get_project_io
    from glotaran.plugin_system.project_io_registration import known_project_formats

    out = []
    if SAVE[func][0] == "project":
        for f in known_project_formats():
            if list(methods_differ_from_baseclass([func], get_project_io(f), ProjectIoInterface))[0]:
                out.append(f)
    else:
        for f in known_data_formats():
            if list(methods_differ_from_baseclass([func], get_data_io(f), DataIoInterface))[0]:
                out.append(f)
    return out


def case_overwrite(case):
    import glotaran.io as gio
    from glotaran.io.interface import DataIoInterface
    from glotaran.io.interface import ProjectIoInterface
    from glotaran.testing.plugin_system import monkeypatch_plugin_registry_data_io
    from glotaran.testing.plugin_system import monkeypatch_plugin_registry_project_io

    func, fmt, state, allow = case["func"], case["format"], case["state"], case["allow_overwrite"]
    obj = objects()[SAVE[func][1]]
    calls = []

    def half_writer(self, *a, **k):
        calls.append(func)
        target = k.get("file_name") or k.get("result_path") or (a[1] if len(a) > 1 and isinstance(a[1], str) else a[0])
        p = Path(str(target))
        if p.is_dir() or p.suffix == "":
            p.mkdir(parents=True, exist_ok=True)
            p = p / "half.bin"
        p.write_bytes(b"half")
        raise RuntimeError("plugin failed midway")

    class HalfProject(ProjectIoInterface):
        save_model = save_parameters = save_scheme = save_result = half_writer

    class HalfData(DataIoInterface):
        save_dataset = half_writer

    class NoneProject(ProjectIoInterface):
        pass

    class NoneData(DataIoInterface):
        pass

    vs = []
    with tempfile.TemporaryDirectory(prefix="vf-c18-") as d, monkeypatch_plugin_registry_project_io(
        {"vfhalf": HalfProject("vfhalf"), "vfnone": NoneProject("vfnone")}
    ), monkeypatch_plugin_registry_data_io({"vfhalf": HalfData("vfhalf"), "vfnone": NoneData("vfnone")}):
        folder_target = case.get("folder_target", False)
        suffix = {"yml": "yml", "yaml": "yaml", "folder": "", "legacy": ""}.get(fmt, fmt)
        name = "target" if folder_target or suffix == "" else f"target.{suffix}"
        base = Path(d) / "work"
        base.mkdir()
        (base / "bystander.txt").write_text("keep me")
        target = base / name if state != "parent_missing" else base / "new" / "deeper" / name
        if state == "file_present":
            target.write_bytes(b"precious")
        elif state == "folder_empty":
            target.mkdir()
        elif state == "folder_nonempty":
            target.mkdir()
            (target / "model.yml").write_text("precious: true\n")
            (target / "notes.txt").write_text("my notes")
        before = tree(base)
        exc = None
        try:
            with warnings.catch_warnings():
                warnings.simplefilter("ignore")
                # update_source_path=False: the shared objects must not remember scratch paths of other cases
                getattr(gio, func)(obj, str(target), format_name=fmt, allow_overwrite=allow, update_source_path=False)
        except BaseException as e:  # noqa: BLE001
            exc = e
        after = tree(base)
        occupied = state == "file_present" or state == "folder_nonempty"
        if occupied and not allow:
            if not isinstance(exc, FileExistsError):
                vs.append(V("existing-target-not-refused-with-FileExistsError", func=func, format=fmt, state=state,
                            got=type(exc).__name__ if exc else None, message=str(exc)[:150] if exc else None))  # fmt: skip
            if after != before:
                changed = sorted(k for k in set(before) | set(after) if before.get(k) != after.get(k))
                vs.append(V("files-changed-although-overwrite-was-not-allowed", func=func, format=fmt, state=state, changed=changed[:6]))
            if calls:
                vs.append(V("plugin-called-before-overwrite-protection", func=func, format=fmt, state=state))
        else:
            if isinstance(exc, FileExistsError):
                vs.append(V("FileExistsError-although-target-free-or-overwrite-allowed", func=func, format=fmt, state=state, allow_overwrite=allow,
                            message=str(exc)[:150]))  # fmt: skip
            real = fmt not in ("vfhalf", "vfnone", "nosuchformat")
            writable = state in ("absent", "parent_missing") or folder_target or (state == "file_present" and allow and func != "save_result")
            if real and writable and exc is not None and not (fmt == "folder" and func != "save_result"):
                vs.append(V("save-to-free-target-failed", func=func, format=fmt, state=state, exc=repr(exc)[:200]))
            if real and exc is None and not (target.exists() or any(base.rglob("*target*"))):
                vs.append(V("nothing-written", func=func, format=fmt, state=state))
            if fmt == "nosuchformat" and not isinstance(exc, ValueError):
                vs.append(V("unknown-format-not-a-ValueError", func=func, got=type(exc).__name__ if exc else None))
            if fmt == "vfnone" and not isinstance(exc, ValueError):
                vs.append(V("unimplemented-method-not-a-ValueError", func=func, got=type(exc).__name__ if exc else None))
        # bystander files are never touched
        if before.get("bystander.txt") != after.get("bystander.txt"):
            vs.append(V("unrelated-file-changed", func=func, format=fmt))
    key = [func, fmt, state, allow, case.get("folder_target", False)]
    return core.ok(key=key, outcome=[type(exc).__name__ if exc else None], violations=vs, states=1, transitions=1, traces=1)


# --------------------------------------------------------------------------- (b) project histories
def make_project(d):
    from glotaran.io import save_dataset
    from glotaran.io import save_model
    from glotaran.io import save_parameters
    from glotaran.project import Project

    o = objects()
    project = Project.open(Path(d) / "proj")
    save_model(o["model"], project.folder / "models" / "m.yml")
    save_parameters(o["parameters"], project.folder / "parameters" / "p.csv")
    save_dataset(o["dataset"], project.folder / "data" / "d1.nc")
    return project


def run_name_ok(name, k):
    return f"{name}_run_{k:04d}"


def case_history(case):
    """replay a sequence of Project.optimize(result_name=...) calls on a fresh project; check every invariant after every event"""
    import glotaran.optimization.optimize as opt_mod

    hist = case["history"]
    o = objects()
    vs = []
    orig = opt_mod.optimize
    opt_mod.optimize = lambda scheme, *a, **k: o["result"]  # the fit itself is not what C18 is about
    counts: dict = {}
    try:
        with tempfile.TemporaryDirectory(prefix="vf-c18-") as d, warnings.catch_warnings():
            warnings.simplefilter("ignore")
            project = make_project(d)
            results_dir = project.folder / "results"
            if case.get("stray"):
                (results_dir / case["stray"]).mkdir(parents=True)
            snapshots: dict = {}
            for step, name in enumerate(hist):
                k = counts.get(name, 0)
                before = set(p.name for p in results_dir.iterdir()) if results_dir.exists() else set()
                try:
                    if case.get("by_model_name"):
                        # the result name is left to its default: the name of the model
                        mf = project.folder / "models" / f"{name}.yml"
                        if not mf.exists():
                            shutil.copy(project.folder / "models" / "m.yml", mf)
                        project.optimize(name, "p", maximum_number_function_evaluations=1)
                    else:
                        project.optimize("m", "p", result_name=name, maximum_number_function_evaluations=1)
                except Exception as e:  # noqa: BLE001
                    vs.append(V("project-optimize-raised", history=hist[: step + 1], name=name, exc=repr(e)[:200]))
                    break
                after = set(p.name for p in results_dir.iterdir())
                new = sorted(after - before)
                want = run_name_ok(name, k)
                if new != [want]:
                    vs.append(V("run-not-stored-under-fresh-increasing-number", history=hist[: step + 1], created=new, want=want))
                    break
                counts[name] = k + 1
                # earlier runs byte-identical
                for folder, snap in snapshots.items():
                    if tree_contents(results_dir / folder) != snap:
                        vs.append(V("earlier-run-changed", history=hist[: step + 1], run=folder))
                snapshots[want] = tree_contents(results_dir / want)
                # lookups for every name used so far
                import re as _re

                for nm, cnt in counts.items():
                    latest = results_dir / run_name_ok(nm, cnt - 1)
                    # a result name that itself ends in _run_NNNN is indistinguishable from "run NNNN of <prefix>" when queried
                    # bare: only queries that carry their own run specifier are judged for such names
                    ambiguous = _re.fullmatch(r".+_run_\d{4}", nm) is not None
                    queries = [("get_result_path(latest=True)", lambda nm=nm: project.get_result_path(nm, latest=True)),
                               ("get_result_path()", lambda nm=nm: project.get_result_path(nm)),
                               ("get_latest_result_path", lambda nm=nm: project.get_latest_result_path(nm)),
                               ("get_latest_result_path(with run specifier)", lambda nm=nm: project.get_latest_result_path(run_name_ok(nm, 0)))]  # fmt: skip
                    for label, q in [] if ambiguous else queries:
                        try:
                            got = Path(q())
                        except Exception as e:  # noqa: BLE001
                            vs.append(V("latest-result-lookup-raised", lookup=label, name=nm, history=hist[: step + 1], exc=repr(e)[:160]))
                            continue
                        if got.resolve() != latest.resolve():
                            vs.append(V("latest-result-lookup-resolves-to-wrong-run", lookup=label, name=nm, history=hist[: step + 1],
                                        got=got.name, want=latest.name))  # fmt: skip
                    for r in range(cnt):
                        try:
                            got = Path(project.get_result_path(run_name_ok(nm, r)))
                            if got.resolve() != (results_dir / run_name_ok(nm, r)).resolve():
                                vs.append(V("explicit-run-lookup-resolves-to-wrong-run", name=nm, run=r, got=got.name, history=hist[: step + 1]))
                        except Exception as e:  # noqa: BLE001
                            vs.append(V("explicit-run-lookup-raised", name=nm, run=r, history=hist[: step + 1], exc=repr(e)[:160]))
                    if step == len(hist) - 1 and not ambiguous:
                        try:
                            res = project.load_latest_result(nm)
                            src = Path(str(res.source_path))
                            if latest.name not in src.as_posix().split("/"):
                                vs.append(V("load-latest-result-loaded-wrong-run", name=nm, source=str(src), want=latest.name, history=hist))
                            # like get_latest_result_path, the latest-loader ignores a run specifier in the name it is given
                            res = project.load_latest_result(run_name_ok(nm, 0))
                            src = Path(str(res.source_path))
                            if latest.name not in src.as_posix().split("/"):
                                vs.append(V("load-latest-result-loaded-wrong-run", name=run_name_ok(nm, 0), source=str(src), want=latest.name, history=hist))
                            first = project.load_result(run_name_ok(nm, 0))
                            if run_name_ok(nm, 0) not in Path(str(first.source_path)).as_posix().split("/"):
                                vs.append(V("load-result-loaded-wrong-run", name=nm, history=hist))
                        except Exception as e:  # noqa: BLE001
                            vs.append(V("load-result-raised", name=nm, history=hist, exc=repr(e)[:160]))
                if vs:
                    break
            try:
                keys = set(project.results.keys())
                want_keys = {run_name_ok(n, r) for n, c in counts.items() for r in range(c)} | ({case["stray"]} if case.get("stray") else set())
                if keys != want_keys and not vs:
                    vs.append(V("project-results-listing-wrong", got=sorted(keys), want=sorted(want_keys), history=hist))
            except Exception as e:  # noqa: BLE001
                vs.append(V("project-results-raised", exc=repr(e)[:160], history=hist))
            final = sorted(p.name for p in results_dir.iterdir()) if results_dir.exists() else []
    finally:
        opt_mod.optimize = orig
    nontrivial = len(set(hist)) < len(hist) or any(a != b and (a in b or b in a) for a in hist for b in hist)
    return core.ok(key=hist if nontrivial else None, outcome=final, violations=vs, transitions=len(hist), traces=len(hist),
                   max_depth=len(hist), payload={"final": final})  # fmt: skip


def case_project_files(case):
    """import_data / generate_model / generate_parameters honour ignore_existing / allow_overwrite over call histories"""
    from glotaran.project import Project

    o = objects()
    vs = []
    with tempfile.TemporaryDirectory(prefix="vf-c18-") as d, warnings.catch_warnings():
        warnings.simplefilter("ignore")
        project = Project.open(Path(d) / "proj")
        kind = case["kind"]
        ds1 = o["dataset"]
        ds2 = ds1.copy(deep=True)
        ds2["data"] = ds2["data"] * 2.0
        exists = False
        model_bytes = None
        for step, (variant, allow, ignore) in enumerate(case["history"]):
            if kind == "import_data":
                f = project.folder / "data" / "d.nc"
                call = lambda: project.import_data(ds1 if variant == 0 else ds2, dataset_name="d", allow_overwrite=allow, ignore_existing=ignore)  # noqa: E731
            elif kind == "generate_model":
                f = project.folder / "models" / "gm.yml"
                args = {"nr_compartments": 2 + variant, "irf": False}
                call = lambda: project.generate_model("gm", "decay_parallel", args, allow_overwrite=allow, ignore_existing=ignore)  # noqa: E731
            else:
                if model_bytes is None:
                    project.generate_model("gm", "decay_parallel", {"nr_compartments": 2, "irf": False})
                    project.generate_model("gm3", "decay_parallel", {"nr_compartments": 3, "irf": False})
                    model_bytes = True
                f = project.folder / "parameters" / "pp.csv"
                call = lambda: project.generate_parameters("gm" if variant == 0 else "gm3", "pp", allow_overwrite=allow, ignore_existing=ignore)  # noqa: E731
            before = f.read_bytes() if f.exists() else None
            exc = None
            try:
                call()
            except Exception as e:  # noqa: BLE001
                exc = e
            after = f.read_bytes() if f.exists() else None
            ctx = dict(kind=kind, history=case["history"][: step + 1])
            if before is None:
                if exc is not None or after is None:
                    vs.append(V("file-not-created", exc=repr(exc)[:160], **ctx))
            elif allow:
                if exc is not None:
                    vs.append(V("overwrite-allowed-but-raised", exc=repr(exc)[:160], **ctx))
            elif ignore:
                if exc is not None or after != before:
                    vs.append(V("ignore-existing-not-honoured", exc=repr(exc)[:160], changed=after != before, **ctx))
            else:
                if not isinstance(exc, FileExistsError) or after != before:
                    vs.append(V("existing-project-file-not-protected", got=type(exc).__name__ if exc else None, changed=after != before, **ctx))
            exists = exists or after is not None
            if vs:
                break
    return core.ok(key=[case["kind"], case["history"]], outcome=len(vs), violations=vs, transitions=len(case["history"]), traces=len(case["history"]))


def case_run_overflow(case):
    """run counter at the end of the four-digit range: whatever Project.optimize does then (store under a longer number,
    refuse), every run stored before stays byte-identical"""
    import glotaran.optimization.optimize as opt_mod

    o = objects()
    vs = []
    orig = opt_mod.optimize
    opt_mod.optimize = lambda scheme, *a, **k: o["result"]
    try:
        with tempfile.TemporaryDirectory(prefix="vf-c18-") as d, warnings.catch_warnings():
            warnings.simplefilter("ignore")
            project = make_project(d)
            results_dir = project.folder / "results"
            project.optimize("m", "p", result_name="a", maximum_number_function_evaluations=1)
            (results_dir / "a_run_0000").rename(results_dir / f"a_run_{case['start']:04d}")
            outcomes = []
            for step in range(case["steps"]):
                snap = {p.name: tree_contents(p) for p in results_dir.iterdir()}
                try:
                    project.optimize("m", "p", result_name="a", maximum_number_function_evaluations=1)
                    outcomes.append("stored")
                except Exception as e:  # noqa: BLE001
                    outcomes.append(type(e).__name__)
                for name, content in snap.items():
                    if not (results_dir / name).exists() or tree_contents(results_dir / name) != content:
                        vs.append(V("earlier-run-changed", run=name, step=step, outcome=outcomes[-1], start=case["start"]))
                if vs:
                    break
    finally:
        opt_mod.optimize = orig
    return core.ok(key=[case["start"], case["steps"]], outcome=outcomes, violations=vs)


def case_import_names(case):
    """import_data under two names: each name has its own file; importing (or overwriting) one never touches the other"""
    from glotaran.io import load_dataset
    from glotaran.project import Project

    o = objects()
    vs = []
    n1, n2 = case["names"]
    with tempfile.TemporaryDirectory(prefix="vf-c18-") as d, warnings.catch_warnings():
        warnings.simplefilter("ignore")
        project = Project.open(Path(d) / "proj")
        ds1 = o["dataset"]
        ds2 = ds1.copy(deep=True)
        ds2["data"] = ds2["data"] * 2.0
        f1, f2 = project.folder / "data" / f"{n1}.nc", project.folder / "data" / f"{n2}.nc"
        try:
            project.import_data(ds1, dataset_name=n1)
            b1 = f1.read_bytes() if f1.exists() else None
            if b1 is None:
                vs.append(V("imported-dataset-not-stored-under-its-name", name=n1, files=sorted(p.name for p in (project.folder / "data").iterdir())))
            project.import_data(ds2, dataset_name=n2, allow_overwrite=case["allow"], ignore_existing=case["ignore"])
            if not f2.exists():
                vs.append(V("imported-dataset-not-stored-under-its-name", name=n2, files=sorted(p.name for p in (project.folder / "data").iterdir())))
            elif not np.array_equal(load_dataset(f2)["data"].values, ds2["data"].values):
                vs.append(V("imported-dataset-file-holds-other-data", name=n2))
            if b1 is not None and (not f1.exists() or f1.read_bytes() != b1):
                vs.append(V("importing-one-name-changed-another-names-file", changed=n1, imported=n2, allow_overwrite=case["allow"]))
        except Exception as e:  # noqa: BLE001
            vs.append(V("import-of-a-new-name-raised", names=[n1, n2], exc=repr(e)[:200]))
    return core.ok(key=[case["names"], case["allow"], case["ignore"]], outcome=len(vs), violations=vs)


def case_tlc_run_edge(case):
    from vf import tlc

    return tlc.case_tlc_run_edge(case)


_CREATE_SCRIPT = """
import json, sys, warnings
warnings.simplefilter("ignore")
from pathlib import Path
from glotaran.project import Project
out = {}
here = Path(__file__).parent
Project.create("relproj")
pf = here / "relproj" / "project.gta"
out["created_next_to_script"] = pf.exists()
if pf.exists():
    pf.write_text(pf.read_text() + chr(10) + "# marker" + chr(10))
before = pf.read_bytes() if pf.exists() else None
try:
    Project.create("relproj")
    out["second_create"] = "no error"
except FileExistsError:
    out["second_create"] = "FileExistsError"
except Exception as e:
    out["second_create"] = repr(e)[:200]
out["unchanged"] = pf.exists() and pf.read_bytes() == before
print("RESULT " + json.dumps(out))
"""


def case_create_relative(case):
    """Project.create with a relative folder, called from a script whose folder is not the working directory: the second
    create must be refused with FileExistsError and leave project.gta untouched (protection must not depend on the cwd)"""
    import subprocess
    import sys

    vs = []
    with tempfile.TemporaryDirectory(prefix="vf-c18-") as d:
        script_dir, cwd = Path(d) / "scripts", Path(d) / "elsewhere"
        script_dir.mkdir()
        cwd.mkdir()
        if case["cwd"] == "script_folder":
            cwd = script_dir
        (script_dir / "s.py").write_text(_CREATE_SCRIPT)
        env = dict(os.environ, PYTHONPATH=os.pathsep.join(p for p in sys.path if p))
        p = subprocess.run([sys.executable, str(script_dir / "s.py")], cwd=cwd, env=env, capture_output=True, text=True, timeout=600)
        line = [l for l in p.stdout.splitlines() if l.startswith("RESULT ")]
        if not line:
            return core.ok(key=None, outcome="script-failed", violations=[V("create-relative-script-failed", stderr=p.stderr[-400:])])
        import json

        out = json.loads(line[0][7:])
        if out["second_create"] != "FileExistsError" or not out["unchanged"]:
            vs.append(V("existing-project-file-not-protected/relative-folder", cwd=case["cwd"], **out))
    return core.ok(key=case["cwd"], outcome=out, violations=vs)


CASE_FUNCS = {"overwrite": case_overwrite, "history": case_history, "project_files": case_project_files, "tlc_run_edge": case_tlc_run_edge,
              "create_relative": case_create_relative, "import_names": case_import_names, "run_overflow": case_run_overflow}  # fmt: skip


def run(run: core.Run):
    quick = run.tier == "quick"
    objects()
    cases = []
    for func in SAVE:
        fmts = formats_for(func) + ["nosuchformat", "vfnone", "vfhalf"]
        for fmt in fmts:
            for state in ("absent", "file_present", "folder_empty", "folder_nonempty", "parent_missing"):
                for allow in (False, True):
                    folderish = func == "save_result" and fmt in ("yml", "yaml", "folder", "legacy", "vfhalf")
                    for ft in (False, True) if folderish else (False,):
                        if state == "file_present" and ft:
                            continue
                        if state in ("folder_empty", "folder_nonempty") and not ft and fmt not in ("nosuchformat", "vfnone", "vfhalf") and not folderish:
                            pass  # a directory sitting where a file should be written
                        cases.append({"func": func, "format": fmt, "state": state, "allow_overwrite": allow, "folder_target": ft})
    run.map("overwrite", cases)
    depth = 3 if quick else 4
    names = NAMES if quick else NAMES
    hists = []
    for n in range(1, depth + 1):
        for h in itertools.product(names, repeat=n):
            if n == 4 and len(set(h)) > 2:
                continue  # thorough depth 4: histories over at most two distinct names
            hists.append({"history": list(h)})
    for stray in ("a_run_zzzz", "a_run_0003.bak", "notes"):
        for h in (["a"], ["a", "a"], ["a_run_b", "a"]):
            hists.append({"history": h, "stray": stray})
    # the same histories with the result name left to its default (the model's name; model files named after the names)
    for n in range(1, 3):
        for h in itertools.product(names, repeat=n):
            hists.append({"history": list(h), "by_model_name": True})
    for h in (["a", "a.b", "a"], ["a.b", "a", "a.b"], ["ab", "a", "ab"]):
        hists.append({"history": h, "by_model_name": True})
    run.map("history", hists, chunksize=4)
    finals = {tuple(p["final"]) for _, p in run.payloads.get("history", [])}
    run.states += len(finals)
    pf = []
    flags = [(a, i) for a in (False, True) for i in (False, True)]
    for kind in ("import_data", "generate_model", "generate_parameters"):
        for n in (1, 2, 3) if not quick else (1, 2):
            for h in itertools.product([(v, a, i) for v in (0, 1) for a, i in flags], repeat=n):
                if n == 3 and h[0][0] != 0:
                    continue
                pf.append({"kind": kind, "history": [list(x) for x in h]})
    run.map("project_files", pf, chunksize=8)
    run.map("create_relative", [{"cwd": "elsewhere"}, {"cwd": "script_folder"}])
    imp = []
    for names in (["a", "ab"], ["s_0.5mM", "s_0.25mM"], ["d.nc", "d"], ["run.1", "run.2"], ["x", "x.y"]):
        for allow, ignore in ((False, True), (True, True), (False, False), (True, False)):
            imp.append({"names": names, "allow": allow, "ignore": ignore})
            imp.append({"names": names[::-1], "allow": allow, "ignore": ignore})
    run.map("import_names", imp)
    run.map("run_overflow", [{"start": st, "steps": 3} for st in (9997, 9998, 9999)])
    try:
        from vf import tlc

        tlc.run_runs(run)
    except Exception as e:  # noqa: BLE001 - TLC unavailable is reported, not hidden
        run.extra["tlc_error"] = repr(e)[:300]
    run.bounds = {"save_functions": list(SAVE), "formats": {f: formats_for(f) for f in SAVE}, "harness_plugins": ["nosuchformat", "vfnone", "vfhalf"],
                  "target_states": 5, "result_names": names, "history_depth": depth, "project_file_history_depth": 2 if quick else 3}  # fmt: skip
    run.rule = (
        "(a) full matrix save function x format x target state x allow_overwrite (x file/folder target) with byte+mtime tree "
        "snapshots; (b) every sequence of Project.optimize result names up to the depth bound on a fresh real project "
        "(optimize itself replaced by a genuine pre-computed Result), invariants after every event; states = distinct final "
        "results-folder listings; (c) import/generate flag histories. distinct_nontrivial = matrix cells + histories with "
        "repeated or prefix-related names"
    )
    run.assumptions = ["the optimisation inside Project.optimize is replaced by a pre-computed genuine Result (saving, numbering, lookup are real)"]
