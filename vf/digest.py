"""Deep digest of the complete mutable state reachable from an object (used as E2 state identity).

Walks dicts, sequences, sets, numpy / xarray arrays (bytes), attrs/dataclass/plain objects (their __dict__ or
__slots__), glotaran Parameter/Parameters.  Object identity is not part of the digest, but *aliasing* is: every
mutable container/array is numbered at first visit and later visits emit a back-reference, so two states in
which the same values are shared differently hash differently.
"""
from __future__ import annotations

import hashlib
import types

import numpy as np

import re

_UUID = re.compile(r"_[0-9a-f]{8}_[0-9a-f_]{20,}$")
SKIP_TYPES = (types.FunctionType, types.BuiltinFunctionType, types.MethodType, types.ModuleType, type)


def deep_digest(obj, exclude=(), max_depth=40) -> str:
    h = hashlib.sha1()
    seen: dict[int, int] = {}
    keep = []  # keep temporaries alive so that ids are not reused during the walk

    def emit(s):
        h.update(s.encode() if isinstance(s, str) else s)
        h.update(b"|")

    def walk(o, depth):
        if depth > max_depth:
            emit("<deep>")
            return
        if o is None or isinstance(o, (bool, int, str, bytes)):
            emit(f"{type(o).__name__}:{o!r}")
            return
        if isinstance(o, (float, np.floating)):
            emit("f:" + float(o).hex())
            return
        if isinstance(o, (np.integer, np.bool_)):
            emit(f"i:{int(o)}")
            return
        if isinstance(o, complex):
            emit(f"c:{o!r}")
            return
        if isinstance(o, SKIP_TYPES):
            emit(f"<{type(o).__name__}>")
            return
        oid = id(o)
        if oid in seen:
            emit(f"@{seen[oid]}")
            return
        seen[oid] = len(seen)
        keep.append(o)
        if isinstance(o, np.ndarray):
            emit(f"nd:{o.dtype}:{o.shape}")
            if o.dtype == object:
                for x in o.ravel():
                    walk(x, depth + 1)
            else:
                emit(np.ascontiguousarray(o).tobytes())
            base = o.base
            if isinstance(base, np.ndarray):  # views alias their base
                emit("view-of")
                walk(base, depth + 1)
            return
        tname = _UUID.sub("", type(o).__module__ + "." + type(o).__name__)
        if tname.startswith("xarray."):
            emit(tname)
            try:
                if hasattr(o, "data_vars"):
                    for k in sorted(o.data_vars):
                        emit(f"var:{k}:{o[k].dims}")
                        walk(np.asarray(o[k].values), depth + 1)
                    for k in sorted(o.coords):
                        emit(f"coord:{k}")
                        walk(np.asarray(o.coords[k].values), depth + 1)
                    walk({k: v for k, v in o.attrs.items() if not callable(v)}, depth + 1)
                else:
                    emit(f"dims:{o.dims}")
                    walk(np.asarray(o.values), depth + 1)
                    for k in sorted(o.coords):
                        emit(f"coord:{k}")
                        walk(np.asarray(o.coords[k].values), depth + 1)
            except Exception as e:  # noqa: BLE001
                emit(f"<xarray-error {type(e).__name__}>")
            return
        if isinstance(o, dict):
            emit(f"dict:{len(o)}")
            for k in o:  # insertion order is state too
                if isinstance(k, str) and k in exclude:
                    continue
                walk(k, depth + 1)
                walk(o[k], depth + 1)
            return
        if isinstance(o, (list, tuple)):
            emit(f"{type(o).__name__}:{len(o)}")
            for x in o:
                walk(x, depth + 1)
            return
        if isinstance(o, (set, frozenset)):
            emit(f"set:{len(o)}")
            for x in sorted(o, key=repr):
                walk(x, depth + 1)
            return
        if tname.startswith(("asteval.", "scipy.", "numba.", "io.", "_io.", "pandas.")):
            emit(f"<{tname}>")
            return
        emit("obj:" + tname)
        d = getattr(o, "__dict__", None)
        if d is not None:
            for k in d:
                if k in exclude:
                    continue
                emit("." + k)
                walk(d[k], depth + 1)
        for k in getattr(type(o), "__slots__", ()) or ():
            if k in exclude or k in ("__dict__", "__weakref__"):
                continue
            if hasattr(o, k):
                emit("." + k)
                walk(getattr(o, k), depth + 1)

    walk(obj, 0)
    return h.hexdigest()[:16]
