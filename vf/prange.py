"""E5: partial-order exploration of numba `prange` kernels on their Python source (`dispatcher.py_func`).

The kernel is executed once with
  * `numba.prange` replaced by an instrumented iterator that knows, from `dispatcher.targetoptions`, whether the
    loop is a parallel region (outermost prange of a function compiled with parallel=True) or a plain loop
    (parallel=False, or nested inside a parallel region of the same function), and
  * every array argument replaced by a recording proxy that logs element reads / writes together with the
    *path* of enclosing parallel-region iterations.
Two accesses are concurrent iff their paths diverge inside the same parallel region instance.  The conflict
relation = pairs of concurrent accesses to one element with at least one write.  If it is empty, all
interleavings of the parallel iterations are equivalent (one Mazurkiewicz trace) and the single executed order
represents every schedule; otherwise the conflicting pair is returned as counterexample.
"""
from __future__ import annotations

import itertools

import numpy as np


class Ctx:
    def __init__(self):
        self.path: tuple = ()
        self.log: list = []  # (array name, element id, 'r'|'w', path)
        self.region_counter = itertools.count()
        self.regions = 0
        self.parallel_iterations = 0
        self.func_stack: list = []  # (parallel flag, depth of prange nesting inside this function)


CTX: list = [None]


class Rec:
    """recording proxy of an ndarray (views keep their element ids)"""

    __array_priority__ = 1000

    def __init__(self, name, data, ids=None):
        self.name = name
        self.data = data
        self.ids = np.arange(data.size).reshape(data.shape) if ids is None else ids

    # --- logging helpers
    def _log(self, ids, kind):
        ctx = CTX[0]
        path = ctx.path
        for i in np.asarray(ids).ravel():
            ctx.log.append((self.name, int(i), kind, path))

    # --- ndarray protocol used by the kernels
    @property
    def shape(self):
        return self.data.shape

    @property
    def size(self):
        return self.data.size

    @property
    def ndim(self):
        return self.data.ndim

    def __len__(self):
        return len(self.data)

    def __getitem__(self, k):
        d, i = self.data[k], self.ids[k]
        if np.ndim(d) == 0:
            self._log(i, "r")
            return d
        return Rec(self.name, d, i)

    def __setitem__(self, k, v):
        if isinstance(v, Rec):
            v = v.read()
        self._log(self.ids[k], "w")
        self.data[k] = v

    def read(self):
        self._log(self.ids, "r")
        return np.array(self.data, copy=True)

    def __array__(self, dtype=None, copy=None):
        return self.read()

    def _binop(self, other, op):
        if isinstance(other, Rec):
            other = other.read()
        return op(self.read(), other)

    def __mul__(self, o):
        return self._binop(o, np.multiply)

    __rmul__ = __mul__

    def __add__(self, o):
        return self._binop(o, np.add)

    __radd__ = __add__

    def __sub__(self, o):
        return self._binop(o, np.subtract)

    def __truediv__(self, o):
        return self._binop(o, np.divide)

    def __rsub__(self, o):
        return np.subtract(o, self.read())

    def __rtruediv__(self, o):
        return np.divide(o, self.read())

    def __pow__(self, o):
        return self._binop(o, np.power)

    def __rpow__(self, o):
        return np.power(o, self.read())

    def __neg__(self):
        return -self.read()

    def __eq__(self, o):
        return self._binop(o, np.equal)

    def __ne__(self, o):
        return self._binop(o, np.not_equal)

    __hash__ = None

    def __lt__(self, o):
        return self._binop(o, np.less)

    def __le__(self, o):
        return self._binop(o, np.less_equal)

    def __gt__(self, o):
        return self._binop(o, np.greater)

    def __ge__(self, o):
        return self._binop(o, np.greater_equal)

    def __matmul__(self, o):
        return self._binop(o, np.matmul)

    def __rmatmul__(self, o):
        return np.matmul(o, self.read())

    def __iter__(self):
        for k in range(len(self.data)):
            yield self[k]

    @property
    def dtype(self):
        return self.data.dtype

    @property
    def T(self):
        return Rec(self.name, self.data.T, self.ids.T)

    def copy(self):
        return self.read()

    def sum(self, *a, **k):
        return self.read().sum(*a, **k)

    def _inplace(self, other, op):
        if isinstance(other, Rec):
            other = other.read()
        self._log(self.ids, "r")
        self._log(self.ids, "w")
        op(self.data, other, out=self.data)
        return self

    def __iadd__(self, o):
        return self._inplace(o, np.add)

    def __imul__(self, o):
        return self._inplace(o, np.multiply)

    def __itruediv__(self, o):
        return self._inplace(o, np.divide)


def rec_prange(*args):
    ctx = CTX[0]
    parallel, depth = ctx.func_stack[-1] if ctx.func_stack else (False, 0)
    is_region = parallel and depth == 0
    rng = range(*[int(a) for a in args])
    if ctx.func_stack:
        ctx.func_stack[-1] = (parallel, depth + 1)
    try:
        if is_region:
            rid = next(ctx.region_counter)
            ctx.regions += 1
            outer = ctx.path
            for n in rng:
                ctx.path = outer + ((rid, n),)
                ctx.parallel_iterations += 1
                yield n
            ctx.path = outer
        else:
            yield from rng
    finally:
        if ctx.func_stack:
            ctx.func_stack[-1] = (parallel, depth)


def wrap(dispatcher):
    """python-level stand-in for a numba dispatcher that follows its parallel flag"""
    parallel = bool(dispatcher.targetoptions.get("parallel", False))
    py = dispatcher.py_func

    def call(*a, **k):
        ctx = CTX[0]
        ctx.func_stack.append((parallel, 0))
        try:
            return py(*a, **k)
        finally:
            ctx.func_stack.pop()

    call.__wrapped_dispatcher__ = dispatcher
    return call


def concurrent(p, q):
    for a, b in zip(p, q):
        if a == b:
            continue
        return a[0] == b[0]  # same region instance, different iteration
    return False


def conflicts(log, limit=3):
    by_el: dict = {}
    for name, el, kind, path in log:
        by_el.setdefault((name, el), []).append((kind, path))
    out = []
    for key, acc in by_el.items():
        writes = [a for a in acc if a[0] == "w"]
        if not writes:
            continue
        # distinct (kind, path) pairs are enough
        uniq = list({(k, p) for k, p in acc})
        for (k1, p1), (k2, p2) in itertools.combinations(uniq, 2):
            if "w" in (k1, k2) and concurrent(p1, p2):
                out.append({"array": key[0], "element": key[1], "a": [k1, list(map(list, p1))], "b": [k2, list(map(list, p2))]})
                if len(out) >= limit:
                    return out
    return out


def explore(module, kernel_name, make_args, array_args, inner_names=()):
    """run module.<kernel_name>.py_func under instrumentation.  make_args() -> list of fresh args;
    array_args = indices of args to wrap.  Returns dict(conflicts, regions, parallel_iterations, outputs)."""
    import numba

    disp = getattr(module, kernel_name)
    saved = {n: getattr(module, n) for n in inner_names}
    saved_prange = numba.prange
    ctx = Ctx()
    CTX[0] = ctx
    args = make_args()
    recs = {}
    for i in array_args:
        recs[i] = Rec(f"arg{i}", args[i])
        args[i] = recs[i]
    try:
        numba.prange = rec_prange
        for n in inner_names:
            setattr(module, n, wrap(saved[n]))
        wrap(disp)(*args)
    finally:
        numba.prange = saved_prange
        for n, v in saved.items():
            setattr(module, n, v)
        CTX[0] = None
    writes = sum(1 for e in ctx.log if e[2] == "w")
    return {
        "conflicts": conflicts(ctx.log),
        "regions": ctx.regions,
        "parallel_iterations": ctx.parallel_iterations,
        "accesses": len(ctx.log),
        "writes": writes,
        "outputs": {i: r.data for i, r in recs.items()},
    }
