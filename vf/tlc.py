"""E4: TLA+ models explored by TLC, every edge of the dumped state graph replayed against the implementation.

`run_registry(run)` (C19): tla/Registry.tla is model checked (invariants FirstWins, Reachable, property FullMonotone);
TLC's `-dump dot,actionlabels` graph is parsed, a BFS tree gives one path to every state, and for *every edge* u -> v
the path to u is replayed on a fresh real registry, the edge's operation is applied through the real functions and
the resulting implementation state (short names, full names, warning, exception) must equal the model's state v.
"""
from __future__ import annotations

import collections
import os
import re
import shutil
import subprocess
import tempfile
import warnings

from vf import core
from vf.core import V

TLA_DIR = core.ROOT / "tla"


def run_tlc(spec: str, timeout=300):
    tlc = shutil.which("tlc")
    if tlc is None:
        raise RuntimeError("tlc not found on PATH")
    d = tempfile.mkdtemp(prefix="vf-tlc-")
    try:
        for ext in (".tla", ".cfg"):
            shutil.copy(TLA_DIR / (spec + ext), d)
        dot = os.path.join(d, "graph.dot")
        p = subprocess.run(
            [tlc, "-workers", "1", "-noGenerateSpecTE", "-metadir", os.path.join(d, "meta"), "-dump", "dot,actionlabels", dot, spec + ".tla"],
            cwd=d, capture_output=True, text=True, timeout=timeout,
        )  # fmt: skip
        out = p.stdout + p.stderr
        if "Model checking completed. No error has been found." not in out:
            return {"ok": False, "output": out[-3000:], "nodes": {}, "edges": []}
        m = re.search(r"(\d+) states generated, (\d+) distinct states found", out)
        nodes, edges = parse_dot(open(dot).read())
        return {"ok": True, "generated": int(m.group(1)), "distinct": int(m.group(2)), "nodes": nodes, "edges": edges, "output": out[-500:]}
    finally:
        shutil.rmtree(d, ignore_errors=True)


def parse_value(text):
    text = text.strip()
    if text in ("TRUE", "FALSE"):
        return text == "TRUE"
    if text.startswith("(") and ":>" in text:
        return {k: parse_value(v) for k, v in re.findall(r"\"([^\"]+)\" :> (\"[^\"]*\"|TRUE|FALSE|-?\d+)", text)}
    if text.startswith("[") and "|->" in text:
        return {k: parse_value(v) for k, v in re.findall(r"(\w+) \|-> (\"[^\"]*\"|TRUE|FALSE|-?\d+)", text)}
    if text.startswith("<<"):
        return [parse_value(x) for x in re.findall(r"\"[^\"]*\"|TRUE|FALSE|-?\d+", text)]
    if text.startswith('"'):
        return text.strip('"')
    if re.fullmatch(r"-?\d+", text):
        return int(text)
    return text


def parse_dot(text):
    nodes, edges = {}, []
    for m in re.finditer(r"^(-?\d+) \[label=\"((?:[^\"\\]|\\.)*)\"", text, re.M):
        nid, label = m.group(1), m.group(2).replace('\\"', '"').replace("\\\\", "\\")
        state = {}
        for part in label.split("\\n"):
            part = part.strip()
            if part.startswith("/\\"):
                name, _, val = part[2:].strip().partition(" = ")
                state[name.strip()] = parse_value(val)
        nodes[nid] = state
    for m in re.finditer(r"^(-?\d+) -> (-?\d+) \[label=\"((?:[^\"\\]|\\.)*)\"", text, re.M):
        edges.append((m.group(1), m.group(2), m.group(3).replace('\\"', '"')))
    return nodes, edges


# --------------------------------------------------------------------------- C19 conformance replay
class _A:
    pass


class _B:
    pass


PLUG = {"A": _A, "B": _B}


def _full(p):
    from glotaran.plugin_system.base_registry import full_plugin_name

    return full_plugin_name(PLUG[p])


def apply_op(registry, op, api):
    """apply a model operation ['reg'|'set'|'setfail', s, p] on the real registry; returns (exception, n_overwrite_warnings)"""
    from glotaran.plugin_system.base_registry import PluginOverwriteWarning

    kind, s, p = op
    exc = None
    with warnings.catch_warnings(record=True) as w:
        warnings.simplefilter("always")
        try:
            if kind == "reg":
                api["reg"](registry, s, PLUG[p])
            else:
                api["set"](registry, s, _full(p))
        except Exception as e:  # noqa: BLE001
            exc = e
    return exc, sum(1 for x in w if issubclass(x.category, PluginOverwriteWarning))


def base_api():
    from glotaran.plugin_system.base_registry import add_plugin_to_registry
    from glotaran.plugin_system.base_registry import set_plugin

    return {
        "reg": lambda reg, s, cls: add_plugin_to_registry(s, cls, reg, "set_x_plugin"),
        "set": lambda reg, s, full: set_plugin(s, full, reg),
    }


def impl_state(registry):
    short = {s: "NONE" for s in ("x", "y")}
    full = {p: False for p in PLUG}
    for k, v in registry.items():
        name = "A" if v is _A else "B" if v is _B else "?"
        if k in short:
            short[k] = name
        for p in PLUG:
            if k == _full(p):
                full[p] = v is PLUG[p]
    return short, full


def replay_registry_graph(g):
    nodes, edges = g["nodes"], g["edges"]
    init = [n for n, s in nodes.items() if s["last"][0] == "init"]
    assert len(init) == 1
    succ = collections.defaultdict(list)
    for u, v, lab in edges:
        succ[u].append(v)
    # BFS tree: path (list of ops) to every state
    path = {init[0]: []}
    q = collections.deque(init)
    while q:
        u = q.popleft()
        for v in succ[u]:
            if v not in path:
                path[v] = path[u] + [nodes[v]["last"]]
                q.append(v)
    api = base_api()
    vs = []
    replayed = 0
    for u, v, lab in edges:
        reg: dict = {}
        for op in path[u]:
            apply_op(reg, op, api)
        su, fu = impl_state(reg)
        if su != nodes[u]["short"] or fu != nodes[u]["full"]:
            vs.append(V("tlc-replay/source-state-differs", path=path[u], model=[nodes[u]["short"], nodes[u]["full"]], impl=[su, fu]))
            continue
        before = dict(reg)
        op = nodes[v]["last"]
        exc, nwarn = apply_op(reg, op, api)
        sv, fv = impl_state(reg)
        replayed += 1
        want = nodes[v]
        if op[0] == "setfail":
            if not isinstance(exc, ValueError) or reg != before:
                vs.append(V("tlc-replay/set-plugin-to-unregistered-full-name-not-rejected", path=path[u], op=op, exc=repr(exc)[:100]))
            continue
        if exc is not None:
            vs.append(V("tlc-replay/operation-raised", path=path[u], op=op, exc=repr(exc)[:100]))
        if sv != want["short"] or fv != want["full"]:
            vs.append(V("tlc-replay/target-state-differs", path=path[u], op=op, model=[want["short"], want["full"]], impl=[sv, fv]))
        if bool(nwarn) != bool(want["warned"]) or nwarn > 1:
            vs.append(V("tlc-replay/overwrite-warning-differs", path=path[u], op=op, model=want["warned"], impl=nwarn))
    return vs, replayed, len(path)


def run_registry(run: core.Run):
    g = run_tlc("Registry")
    if not g["ok"]:
        res = core.ok(key="tlc", outcome="tlc-error", violations=[V("tlc-model-check-failed", output=g["output"][-1500:])])
        run.absorb("tlc_edge", {"model": "Registry.tla"}, res, part="tlc-registry")
        return
    vs, replayed, reached = replay_registry_graph(g)
    res = core.ok(key="tlc-registry", outcome=[g["distinct"], len(g["edges"])],
                  violations=[dict(v, func="tlc_edge", case={"model": "Registry.tla", "path": v["detail"].get("path"), "op": v["detail"].get("op"),
                                                             "want": v["detail"].get("model"), "signature": v["signature"]}) for v in vs],
                  states=g["distinct"], transitions=len(g["edges"]), traces=replayed)  # fmt: skip
    run.absorb("tlc_edge", {"model": "Registry.tla"}, res, part="tlc-registry")
    run.extra["tlc_registry"] = {"distinct_states": g["distinct"], "states_generated": g["generated"], "edges": len(g["edges"]),
                                 "edges_replayed_on_implementation": replayed, "states_reached_by_replay_paths": reached,
                                 "invariants": ["FirstWins", "Reachable", "FullMonotone"]}  # fmt: skip


def case_tlc_edge(case):
    """replay one model edge (path to the source state + operation) on a fresh real registry"""
    api = base_api()
    reg: dict = {}
    for op in case["path"] or []:
        apply_op(reg, op, api)
    vs = []
    if case.get("op"):
        before = dict(reg)
        exc, nwarn = apply_op(reg, case["op"], api)
        sv, fv = impl_state(reg)
        if case["op"][0] == "setfail":
            if not isinstance(exc, ValueError) or reg != before:
                vs.append(V(case["signature"], op=case["op"], exc=repr(exc)[:100]))
        elif case.get("want") is not None and [sv, fv] != case["want"]:
            vs.append(V(case["signature"], op=case["op"], impl=[sv, fv], model=case["want"]))
        elif "warning" in case["signature"]:
            vs.append(V(case["signature"], op=case["op"], impl=nwarn))
    return core.ok(key=None, outcome=None, violations=vs)


# --------------------------------------------------------------------------- C18 conformance replay
def replay_run_edge(src_runs, name, want_number):
    """build a results folder holding src_runs, ask the real registry for the next run of `name`, create it, check lookups"""
    from glotaran.project.project_result_registry import ProjectResultRegistry

    vs = []
    d = tempfile.mkdtemp(prefix="vf-tlc-runs-")
    try:
        reg = ProjectResultRegistry(__import__("pathlib").Path(d))
        for n, k in src_runs.items():
            for i in range(k):
                (reg.directory / f"{n}_run_{i:04d}").mkdir()
        try:
            got = reg.create_result_run_name(name)
        except Exception as e:  # noqa: BLE001
            return [V("tlc-replay/create-result-run-name-raised", source=src_runs, name=name, exc=repr(e)[:120])]
        want = f"{name}_run_{want_number:04d}"
        if got != want:
            vs.append(V("tlc-replay/run-name-differs-from-model", source=src_runs, name=name, got=got, want=want))
        (reg.directory / want).mkdir(exist_ok=True)
        after = dict(src_runs)
        after[name] = want_number + 1
        for m, k in after.items():
            names = [p.name for p in reg.previous_result_paths(m)]
            exp = [f"{m}_run_{i:04d}" for i in range(k)]
            if names != exp:
                vs.append(V("tlc-replay/previous-runs-of-name-differ-from-model", source=src_runs, saved=name, name=m, got=names, want=exp))
            if k:
                try:
                    latest = reg._latest_result_path_fallback(m, latest=True).name
                    if latest != exp[-1]:
                        vs.append(V("tlc-replay/latest-run-differs-from-model", source=src_runs, saved=name, name=m, got=latest, want=exp[-1]))
                except Exception as e:  # noqa: BLE001
                    vs.append(V("tlc-replay/latest-lookup-raised", source=src_runs, saved=name, name=m, exc=repr(e)[:120]))
    finally:
        shutil.rmtree(d, ignore_errors=True)
    return vs


def case_tlc_run_edge(case):
    with warnings.catch_warnings():
        warnings.simplefilter("ignore")
        vs = replay_run_edge(case["source"], case["name"], case["number"])
    return core.ok(key=None, outcome=len(vs), violations=vs, traces=1)


def run_runs(run: core.Run):
    g = run_tlc("RunRegistry")
    if not g["ok"]:
        res = core.ok(key="tlc", outcome="tlc-error", violations=[V("tlc-model-check-failed", output=g["output"][-1500:])])
        run.absorb("tlc_run_edge", {"model": "RunRegistry.tla"}, res, part="tlc-runs")
        return
    cases = []
    for u, v, lab in g["edges"]:
        op = g["nodes"][v]["last"]
        cases.append({"source": g["nodes"][u]["runs"], "name": op[1], "number": op[2]})
    run.map("tlc_run_edge", cases, part="tlc-runs")
    run.states += g["distinct"]
    run.transitions += len(g["edges"])
    run.extra["tlc_run_registry"] = {"distinct_states": g["distinct"], "edges": len(g["edges"]), "edges_replayed_on_implementation": len(cases),
                                     "properties": ["OnlyOwnName", "Increasing", "Bounded"]}  # fmt: skip
