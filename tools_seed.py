#!/venv/bin/python
"""Confirm a seeded change produced by a sub-agent and file it under /verif/seeded/<id>/.

usage: tools_seed.py <src dir with patch.diff demo.py meta.json> <seed id, e.g. C12-1> [--no-suite] [--checks C12,C11]

Steps (all on a scratch worktree of /repo HEAD under /tmp, removed afterwards):
  1. patch applies to HEAD            2. demo fails with the patch, passes without
  3. the repository's test suite passes with the patch (same outcome as the unchanged tree)
  4. the property's quick check(s), run from a snapshot of the committed /verif with VERIF_REPO=<scratch tree>,
     report a VIOLATION (tools_seed_final.sh repeats step 4 on /repo itself: git apply / check / git checkout).
"""
import json
import os
import shutil
import subprocess
import sys
import time

ENV = dict(os.environ)


def sh(cmd, cwd=None, env=None, timeout=3600):
    p = subprocess.run(cmd, shell=True, cwd=cwd, env=env or ENV, capture_output=True, text=True, timeout=timeout)
    out = "\n".join(l for l in (p.stdout + p.stderr).splitlines() if "conda" not in l)
    return p.returncode, out


def main():
    src, sid = sys.argv[1], sys.argv[2]
    no_suite = "--no-suite" in sys.argv
    pid = sid.split("-")[0]
    checks = [pid]
    for a in sys.argv:
        if a.startswith("--checks="):
            checks = a.split("=")[1].split(",")
    dst = f"/verif/seeded/{sid}"
    os.makedirs(dst, exist_ok=True)
    for f in ("patch.diff", "demo.py"):
        if os.path.abspath(src) != os.path.abspath(dst):
            shutil.copy(os.path.join(src, f), os.path.join(dst, f))
    meta_path = os.path.join(dst, "meta.json")
    prev = {}
    if os.path.exists(meta_path):
        try:
            prev = json.load(open(meta_path)).get("confirmation", {})
        except Exception:  # noqa: BLE001
            prev = {}
    meta = json.load(open(os.path.join(src, "meta.json")))
    meta.setdefault("property", pid)
    conf = {"confirmed_at_repo_head": sh("git -C /repo rev-parse --short HEAD")[1].strip()}
    wt = f"/tmp/seedwt-{sid}"
    sh(f"git -C /repo worktree remove --force {wt}")
    rc, out = sh(f"git -C /repo worktree add --detach {wt} HEAD")
    assert rc == 0, out
    try:
        env = dict(ENV, PYTHONPATH=wt, NUMBA_NUM_THREADS="2", OMP_NUM_THREADS="2")
        rc, out = sh(f"/venv/bin/python {dst}/demo.py", cwd=wt, env=env)
        conf["demo_without_change"] = {"exit": rc, "tail": out[-400:]}
        rc, out = sh(f"git apply {dst}/patch.diff", cwd=wt)
        conf["patch_applies"] = rc == 0
        if rc != 0:
            conf["apply_error"] = out[-600:]
            print("PATCH DOES NOT APPLY", out[-600:])
        else:
            rc, out = sh(f"/venv/bin/python {dst}/demo.py", cwd=wt, env=env)
            conf["demo_with_change"] = {"exit": rc, "tail": out[-400:]}
            if not no_suite:
                t = time.time()
                rc, out = sh(
                    "/venv/bin/python -m pytest -q -p no:cacheprovider -n 6 --timeout=900 glotaran benchmark", cwd=wt, env=env
                )
                tail = ([l for l in out.splitlines() if " passed" in l or " failed" in l] or [""])[-1]
                failed = [l for l in out.splitlines() if l.startswith("FAILED")]
                conf["suite_with_change"] = {"summary": tail, "failed": failed, "wall_s": round(time.time() - t)}
            # run the property's quick check(s) from a snapshot of /verif against the patched scratch tree
            snap = f"/tmp/seedverif-{sid}"
            sh(f"rm -rf {snap}; mkdir -p {snap} && cd /verif && git ls-files -z | xargs -0 cp --parents -t {snap}")
            sh(f"cp -r /verif/_deps {snap}/ 2>/dev/null")
            conf["checks"] = {}
            for c in checks:
                t = time.time()
                rc, out = sh(f"./check {c} --tier quick", cwd=snap, env=dict(ENV, VERIF_REPO=wt), timeout=3000)
                viol = [l.replace(snap, "/verif") for l in out.splitlines() if l.startswith("VIOLATION")]
                conf["checks"][c] = {"exit": rc, "violations": viol[:8], "wall_s": round(time.time() - t),
                                     "tail": out.strip().splitlines()[-1][-300:] if out.strip() else ""}
            sh(f"rm -rf {snap}")
    finally:
        sh(f"git -C /repo worktree remove --force {wt}")
    if no_suite and "suite_with_change" in prev:
        conf["suite_with_change"] = dict(prev["suite_with_change"], carried_over_from_repo_head=prev.get("confirmed_at_repo_head"))
    meta["confirmation"] = conf
    json.dump(meta, open(os.path.join(dst, "meta.json"), "w"), indent=1)
    ok_demo = conf.get("demo_with_change", {}).get("exit", 0) != 0 and conf["demo_without_change"]["exit"] == 0
    suite = conf.get("suite_with_change", {})
    ok_suite = no_suite or suite.get("failed", ["x"]) in ([], ["FAILED glotaran/cli/test/test_cli.py::test_cli_deprecation - FileNotFoundErro..."])
    caught = any(v["exit"] == 1 and v["violations"] for v in conf.get("checks", {}).values())
    print(f"{sid}: applies={conf.get('patch_applies')} demo_ok={ok_demo} suite_ok={ok_suite} ({suite.get('summary','-')}) caught={caught}")
    for c, v in conf.get("checks", {}).items():
        print("   ", c, v["exit"], v["violations"][:3])


if __name__ == "__main__":
    main()
