#!/bin/sh
# usage: tools_suite.sh <commit>   -- runs the repo's test-suite on a scratch worktree of that commit
sha=$(git -C /repo rev-parse --short "$1")
wt=/tmp/suite-$sha
git -C /repo worktree add --detach "$wt" "$sha" -q || exit 2
cd "$wt" && PYTHONPATH="$wt" NUMBA_NUM_THREADS=2 OMP_NUM_THREADS=2 /venv/bin/python -m pytest -q -p no:cacheprovider -n 6 --timeout=900 glotaran benchmark > /tmp/suite-$sha.log 2>&1
tail -3 /tmp/suite-$sha.log | tr '\n' ' ' > /tmp/suite-$sha.result
cd / && git -C /repo worktree remove --force "$wt"
