#!/venv/bin/python
"""Regenerate /verif/MUTANTS.md from /verif/seeded/*/meta.json"""
import glob
import json
import os

rows = []
for d in sorted(glob.glob("/verif/seeded/*")):
    m = json.load(open(d + "/meta.json"))
    c = m.get("confirmation", {})
    checks = c.get("checks", {})
    caught = [k for k, v in checks.items() if v["exit"] == 1 and v["violations"]]
    sigs = sorted({v.split("# ")[1].split(" (")[0] for k in caught for v in checks[k]["violations"]})[:3]
    suite = c.get("suite_with_change", {})
    rows.append(
        f"| {os.path.basename(d)} | {m.get('site', '')[:70]} | {str(m.get('summary', ''))[:160].replace('|', '/')} | "
        f"{str(m.get('needs_to_manifest', ''))[:140].replace('|', '/')} | {suite.get('summary', '-')[:60]} | "
        f"{c.get('demo_with_change', {}).get('exit')}/{c.get('demo_without_change', {}).get('exit')} | {', '.join(caught) or 'MISSED'} | "
        f"{'; '.join(sigs)[:170]} | {c.get('confirmed_at_repo_head', '')}{' (ported)' if 'ported' in m else ''} |"
    )
out = [
    "# Seeded changes and which check reports them",
    "",
    "Produced by sub-agents that saw only the property text; confirmed by `tools_seed.py` on a scratch worktree of the",
    "given /repo HEAD: patch applies, demo fails with / passes without the change (exit codes), the repository's suite",
    "(`pytest glotaran benchmark`) has the same outcome as on the unchanged tree (643 passed, the 1 failure is",
    "`test_cli_deprecation`), and the property's quick check - run from a snapshot of the committed /verif with",
    "`VERIF_REPO=<scratch tree>` - exits 1 with the listed violation signatures.",
    "",
    "| seed | site | change | needs | suite with change | demo with/without | reported by | signatures | confirmed at |",
    "|---|---|---|---|---|---|---|---|---|",
] + rows
open("/verif/MUTANTS.md", "w").write("\n".join(out) + "\n")
print(len(rows), "seeds;", sum("MISSED" in r for r in rows), "missed")
